//go:build verif

package main

// Family "equiv" (C15): one logical request expressed in both protocols.  The HTTP expression goes through the
// production HTTP server on loopback, the gRPC expression through protobuf wire encoding/decoding and the production
// gRPC handler; a stub kernel behind both records the t_api.Request each front end submits.
// coq/Model/Equiv.v (http_front, grpc_front) predicts both outcomes from the logical request alone.

import (
	"github.com/resonatehq/resonate/pkg/schedule"
	"reflect"
	"bufio"
	"context"
	"encoding/json"
	"flag"
	"fmt"
	"io"
	"net/http"
	"net/url"
	"os"
	"strings"
	"time"

	grpcApi "github.com/resonatehq/resonate/internal/app/subsystems/api/grpc"
	"github.com/resonatehq/resonate/internal/app/subsystems/api/grpc/pb"
	httpApi "github.com/resonatehq/resonate/internal/app/subsystems/api/http"
	"github.com/resonatehq/resonate/internal/kernel/t_api"
	"github.com/resonatehq/resonate/pkg/idempotency"
	"github.com/resonatehq/resonate/pkg/promise"
	"google.golang.org/grpc/codes"
	"google.golang.org/grpc/status"
	"google.golang.org/protobuf/proto"
)

type logical struct {
	want   *t_api.Request // nil for search
	cbid   string
	recv   *pb.Recv // gRPC expression of want's recv (callbacks / subscriptions)
	search *struct {
		promises bool
		id       string
		state    int
		tags     map[string]string
		limit    int
	}
}

var goodCrons = []string{"* * * * *", "*/5 * * * *", "0 0 * * 1", "15 3 1 1 *"}
var badCrons = []string{"", "x", "* * *", "61 * * * *", "TZ=UTC", "CRON_TZ=UTC", "@every", "TZ=UTC ", "CRON_TZ=UTC \n", "TZ= ", "TZ=UTC\t* * * * *", "TZ=UTC\t@daily", "TZ=UTC\n@hourly", "TZ=UTC\u00a0@daily"}

func genLogical(r *rng) []logical {
	req := func() string { // a field the HTTP binding calls `required`
		if r.chance(0.1) {
			return ""
		}
		return pick(r, []string{"x", "p1", "a/b", "foo.bar", "id-7", " worker-7\n", "x ", "\tq"})
	}
	// ids that travel in the URL path: the client percent-encodes them (escPath), the kernel must see them unaltered
	pathId := func() string {
		return pick(r, []string{"x", "p1", "a/b", "foo.bar", "id-7", "orders+eu/2024", "a+b", "with space", "100%", "q?x=1", "semi;colon", "ü/ß", "a//b", "tail/"})
	}
	ttl32 := func() int { return pick(r, []int{0, 0, 1, 5000, 2147483647, -1}) }
	ttl64 := func() int64 { return pick(r, []int64{0, 0, 1, 5000, 1 << 40, -1}) }
	counter := func() int { return pick(r, []int{1, 1, 2, 7, 2147483647, 0, -1}) }
	timeout := func() int64 { return pick(r, []int64{0, 1, 1000, 1 << 40, -5}) }
	smap := func() map[string]string {
		return pick(r, []map[string]string{nil, nil, {"a": "b"}, {"k": "v", "resonate:invoke": "poll://g"}})
	}
	data := func() []byte { return pick(r, [][]byte{nil, nil, []byte("hello"), []byte(`{"j":1}`)}) }
	ikey := func() *idempotency.Key {
		if r.chance(0.5) {
			return nil
		}
		k := idempotency.Key(pick(r, []string{"k1", "ik/2"}))
		return &k
	}
	value := func() promise.Value { return promise.Value{Headers: smap(), Data: data()} }
	cpr := func() *t_api.CreatePromiseRequest {
		return &t_api.CreatePromiseRequest{Id: req(), IdempotencyKey: ikey(), Strict: r.chance(0.5), Param: value(), Timeout: timeout(), Tags: smap()}
	}
	recv := func() ([]byte, *pb.Recv) {
		switch r.intn(5) {
		case 0:
			return nil, nil
		case 1, 2:
			name := pick(r, []string{"default", "poll"})
			b, _ := json.Marshal(name)
			return b, &pb.Recv{Recv: &pb.Recv_Logical{Logical: name}}
		default:
			typ := pick(r, []string{"poll", "http"})
			d := pick(r, []string{`{"group":"g","id":"i"}`, `{"url":"http://x/y"}`, ``})
			var raw json.RawMessage
			if d != "" {
				raw = json.RawMessage(d)
			}
			b, _ := json.Marshal(map[string]any{"type": typ, "data": raw})
			// canonical field order of receiver.Recv: type, data
			if d == "" {
				b = []byte(fmt.Sprintf(`{"type":%q,"data":null}`, typ))
			} else {
				b = []byte(fmt.Sprintf(`{"type":%q,"data":%s}`, typ, d))
			}
			return b, &pb.Recv{Recv: &pb.Recv_Physical{Physical: &pb.PhysicalRecv{Type: typ, Data: []byte(d)}}}
		}
	}
	out := []logical{}
	add := func(q *t_api.Request) { out = append(out, logical{want: q}) }
	for k := 0; k < 3; k++ {
		add(&t_api.Request{Kind: t_api.ReadPromise, ReadPromise: &t_api.ReadPromiseRequest{Id: pathId()}})
		add(&t_api.Request{Kind: t_api.CreatePromise, CreatePromise: cpr()})
		c := cpr()
		add(&t_api.Request{Kind: t_api.CreatePromiseAndTask, CreatePromiseAndTask: &t_api.CreatePromiseAndTaskRequest{Promise: c,
			Task: &t_api.CreateTaskRequest{PromiseId: c.Id, ProcessId: req(), Ttl: ttl32(), Timeout: c.Timeout}}})
		add(&t_api.Request{Kind: t_api.CompletePromise, CompletePromise: &t_api.CompletePromiseRequest{Id: pathId(), IdempotencyKey: ikey(), Strict: r.chance(0.5),
			State: pick(r, []promise.State{promise.Resolved, promise.Rejected, promise.Canceled}), Value: value()}})
		rb, rp := recv()
		out = append(out, logical{cbid: req(), recv: rp, want: &t_api.Request{Kind: t_api.CreateCallback, CreateCallback: &t_api.CreateCallbackRequest{
			PromiseId: req(), RootPromiseId: req(), Timeout: timeout(), Recv: rb}}})
		out[len(out)-1].want.CreateCallback.Id = out[len(out)-1].cbid
		rb, rp = recv()
		out = append(out, logical{recv: rp, want: &t_api.Request{Kind: t_api.CreateSubscription, CreateSubscription: &t_api.CreateSubscriptionRequest{
			Id: req(), PromiseId: req(), Timeout: timeout(), Recv: rb}}})
		add(&t_api.Request{Kind: t_api.ReadSchedule, ReadSchedule: &t_api.ReadScheduleRequest{Id: pathId()}})
		add(&t_api.Request{Kind: t_api.DeleteSchedule, DeleteSchedule: &t_api.DeleteScheduleRequest{Id: pathId()}})
		cron := pick(r, goodCrons)
		if r.chance(0.15) {
			cron = pick(r, badCrons)
		}
		add(&t_api.Request{Kind: t_api.CreateSchedule, CreateSchedule: &t_api.CreateScheduleRequest{Id: req(), Description: pick(r, []string{"", "d"}), Cron: cron, Tags: smap(),
			PromiseId: req(), PromiseTimeout: timeout(), PromiseParam: value(), PromiseTags: smap(), IdempotencyKey: ikey()}})
		add(&t_api.Request{Kind: t_api.AcquireLock, AcquireLock: &t_api.AcquireLockRequest{ResourceId: req(), ExecutionId: req(), ProcessId: req(), Ttl: ttl64()}})
		add(&t_api.Request{Kind: t_api.ReleaseLock, ReleaseLock: &t_api.ReleaseLockRequest{ResourceId: req(), ExecutionId: req()}})
		add(&t_api.Request{Kind: t_api.HeartbeatLocks, HeartbeatLocks: &t_api.HeartbeatLocksRequest{ProcessId: req()}})
		add(&t_api.Request{Kind: t_api.ClaimTask, ClaimTask: &t_api.ClaimTaskRequest{Id: req(), Counter: counter(), ProcessId: req(), Ttl: ttl32()}})
		add(&t_api.Request{Kind: t_api.CompleteTask, CompleteTask: &t_api.CompleteTaskRequest{Id: req(), Counter: counter()}})
		add(&t_api.Request{Kind: t_api.HeartbeatTasks, HeartbeatTasks: &t_api.HeartbeatTasksRequest{ProcessId: req()}})
		for _, promises := range []bool{true, false} {
			s := &struct {
				promises bool
				id       string
				state    int
				tags     map[string]string
				limit    int
			}{promises, pick(r, []string{"*", "a*", "x", "*", "", " job/*", "* ", " ", "a b*", "A*", "\ta"}), pick(r, []int{0, 1, 2, 3, 0, 7}), smap(), pick(r, []int{0, 1, 50, 100, 101, -1})}
			if !promises {
				s.state = 0
			}
			out = append(out, logical{search: s})
		}
	}
	return out
}

func logicalT(l logical) term {
	if l.search != nil {
		if l.search.promises {
			return C("LSearchP", S(l.search.id), int64(l.search.state), M(l.search.tags), int64(l.search.limit))
		}
		return C("LSearchS", S(l.search.id), M(l.search.tags), int64(l.search.limit))
	}
	return C("LReq", RequestT(l.want), S(l.cbid))
}

func valueJSON(v promise.Value) map[string]any {
	m := map[string]any{}
	if v.Headers != nil {
		m["headers"] = v.Headers
	}
	if v.Data != nil {
		m["data"] = v.Data // []byte -> base64, as promise.Value declares
	}
	return m
}

func cprJSON(c *t_api.CreatePromiseRequest) map[string]any {
	m := map[string]any{"id": c.Id, "timeout": c.Timeout, "param": valueJSON(c.Param)}
	if c.Tags != nil {
		m["tags"] = c.Tags
	}
	return m
}

// what a client library does with an id that goes into the path (net/url PathEscape): every byte outside the
// unreserved set and a few sub-delimiters is percent-encoded, '/' included; '+' is a legal path character and stays
func escPath(id string) string { return url.PathEscape(id) }

// the HTTP expression of a logical request
func exprHTTP(l logical) rawHTTP {
	j := func(v any) string { b, _ := json.Marshal(v); return string(b) }
	h := map[string]string{}
	setKey := func(k *idempotency.Key, strict *bool) {
		if k != nil {
			h["idempotency-key"] = string(*k)
		}
		if strict != nil {
			h["strict"] = fmt.Sprintf("%v", *strict)
		}
	}
	if s := l.search; s != nil {
		q := url.Values{}
		q.Set("id", s.id)
		if s.promises {
			switch s.state {
			case 0:
			case 1:
				q.Set("state", "pending")
			case 2:
				q.Set("state", "resolved")
			case 3:
				q.Set("state", "rejected")
			default:
				q.Set("state", "bogus")
			}
		}
		q.Set("limit", fmt.Sprintf("%d", s.limit))
		for k, v := range s.tags {
			q.Set("tags["+k+"]", v)
		}
		if s.promises {
			return rawHTTP{"GET", "/promises?" + q.Encode(), "", h}
		}
		return rawHTTP{"GET", "/schedules?" + q.Encode(), "", h}
	}
	w := l.want
	switch w.Kind {
	case t_api.ReadPromise:
		return rawHTTP{"GET", "/promises/" + escPath(w.ReadPromise.Id), "", h}
	case t_api.CreatePromise:
		setKey(w.CreatePromise.IdempotencyKey, &w.CreatePromise.Strict)
		return rawHTTP{"POST", "/promises", j(cprJSON(w.CreatePromise)), h}
	case t_api.CreatePromiseAndTask:
		x := w.CreatePromiseAndTask
		setKey(x.Promise.IdempotencyKey, &x.Promise.Strict)
		return rawHTTP{"POST", "/promises/task", j(map[string]any{"promise": cprJSON(x.Promise), "task": map[string]any{"processId": x.Task.ProcessId, "ttl": x.Task.Ttl}}), h}
	case t_api.CompletePromise:
		x := w.CompletePromise
		setKey(x.IdempotencyKey, &x.Strict)
		st := map[promise.State]string{promise.Resolved: "RESOLVED", promise.Rejected: "REJECTED", promise.Canceled: "REJECTED_CANCELED"}[x.State]
		return rawHTTP{"PATCH", "/promises/" + escPath(x.Id), j(map[string]any{"state": st, "value": valueJSON(x.Value)}), h}
	case t_api.CreateCallback:
		x := w.CreateCallback
		m := map[string]any{"Id": x.Id, "promiseId": x.PromiseId, "rootPromiseId": x.RootPromiseId, "timeout": x.Timeout}
		if x.Recv != nil {
			m["recv"] = json.RawMessage(x.Recv)
		}
		return rawHTTP{"POST", "/callbacks", j(m), h}
	case t_api.CreateSubscription:
		x := w.CreateSubscription
		m := map[string]any{"Id": x.Id, "promiseId": x.PromiseId, "timeout": x.Timeout}
		if x.Recv != nil {
			m["recv"] = json.RawMessage(x.Recv)
		}
		return rawHTTP{"POST", "/subscriptions", j(m), h}
	case t_api.ReadSchedule:
		return rawHTTP{"GET", "/schedules/" + escPath(w.ReadSchedule.Id), "", h}
	case t_api.DeleteSchedule:
		return rawHTTP{"DELETE", "/schedules/" + escPath(w.DeleteSchedule.Id), "", h}
	case t_api.CreateSchedule:
		x := w.CreateSchedule
		setKey(x.IdempotencyKey, nil)
		m := map[string]any{"id": x.Id, "desc": x.Description, "cron": x.Cron, "promiseId": x.PromiseId, "promiseTimeout": x.PromiseTimeout, "promiseParam": valueJSON(x.PromiseParam)}
		if x.Tags != nil {
			m["tags"] = x.Tags
		}
		if x.PromiseTags != nil {
			m["promiseTags"] = x.PromiseTags
		}
		return rawHTTP{"POST", "/schedules", j(m), h}
	case t_api.AcquireLock:
		x := w.AcquireLock
		return rawHTTP{"POST", "/locks/acquire", j(map[string]any{"resourceId": x.ResourceId, "executionId": x.ExecutionId, "processId": x.ProcessId, "ttl": x.Ttl}), h}
	case t_api.ReleaseLock:
		x := w.ReleaseLock
		return rawHTTP{"POST", "/locks/release", j(map[string]any{"resourceId": x.ResourceId, "executionId": x.ExecutionId}), h}
	case t_api.HeartbeatLocks:
		return rawHTTP{"POST", "/locks/heartbeat", j(map[string]any{"processId": w.HeartbeatLocks.ProcessId}), h}
	case t_api.ClaimTask:
		x := w.ClaimTask
		return rawHTTP{"POST", "/tasks/claim", j(map[string]any{"id": x.Id, "counter": x.Counter, "processId": x.ProcessId, "ttl": x.Ttl}), h}
	case t_api.CompleteTask:
		x := w.CompleteTask
		return rawHTTP{"POST", "/tasks/complete", j(map[string]any{"id": x.Id, "counter": x.Counter}), h}
	case t_api.HeartbeatTasks:
		return rawHTTP{"POST", "/tasks/heartbeat", j(map[string]any{"processId": w.HeartbeatTasks.ProcessId}), h}
	}
	panic("exprHTTP: kind")
}

// through the protobuf wire format, as a real client's message arrives
func wire[T proto.Message](m T, fresh T) T {
	b, err := proto.Marshal(m)
	if err != nil {
		panic(err)
	}
	if err := proto.Unmarshal(b, fresh); err != nil {
		panic(err)
	}
	return fresh
}

func pbValue(v promise.Value) *pb.Value {
	if v.Headers == nil && v.Data == nil {
		return nil
	}
	return &pb.Value{Headers: v.Headers, Data: v.Data}
}

func keyStr(k *idempotency.Key) string {
	if k == nil {
		return ""
	}
	return string(*k)
}

func pbCPR(c *t_api.CreatePromiseRequest) *pb.CreatePromiseRequest {
	return &pb.CreatePromiseRequest{Id: c.Id, IdempotencyKey: keyStr(c.IdempotencyKey), Strict: c.Strict, Param: pbValue(c.Param), Timeout: c.Timeout, Tags: c.Tags}
}

// the gRPC expression of a logical request
func exprGRPC(gs *grpcApi.VerifSrv, ctx context.Context, l logical) (string, func() error) {
	if s := l.search; s != nil {
		if s.promises {
			m := wire(&pb.SearchPromisesRequest{Id: s.id, State: pb.SearchState(s.state), Tags: s.tags, Limit: int32(s.limit)}, &pb.SearchPromisesRequest{})
			return fmt.Sprintf("SearchPromises %v", m), func() error { _, e := gs.SearchPromises(ctx, m); return e }
		}
		m := wire(&pb.SearchSchedulesRequest{Id: s.id, Tags: s.tags, Limit: int32(s.limit)}, &pb.SearchSchedulesRequest{})
		return fmt.Sprintf("SearchSchedules %v", m), func() error { _, e := gs.SearchSchedules(ctx, m); return e }
	}
	w := l.want
	switch w.Kind {
	case t_api.ReadPromise:
		m := wire(&pb.ReadPromiseRequest{Id: w.ReadPromise.Id}, &pb.ReadPromiseRequest{})
		return fmt.Sprintf("ReadPromise %v", m), func() error { _, e := gs.ReadPromise(ctx, m); return e }
	case t_api.CreatePromise:
		m := wire(pbCPR(w.CreatePromise), &pb.CreatePromiseRequest{})
		return fmt.Sprintf("CreatePromise %v", m), func() error { _, e := gs.CreatePromise(ctx, m); return e }
	case t_api.CreatePromiseAndTask:
		x := w.CreatePromiseAndTask
		m := wire(&pb.CreatePromiseAndTaskRequest{Promise: pbCPR(x.Promise), Task: &pb.CreatePromiseTaskRequest{ProcessId: x.Task.ProcessId, Ttl: int32(x.Task.Ttl)}}, &pb.CreatePromiseAndTaskRequest{})
		return fmt.Sprintf("CreatePromiseAndTask %v", m), func() error { _, e := gs.CreatePromiseAndTask(ctx, m); return e }
	case t_api.CompletePromise:
		x := w.CompletePromise
		switch x.State {
		case promise.Resolved:
			m := wire(&pb.ResolvePromiseRequest{Id: x.Id, IdempotencyKey: keyStr(x.IdempotencyKey), Strict: x.Strict, Value: pbValue(x.Value)}, &pb.ResolvePromiseRequest{})
			return fmt.Sprintf("ResolvePromise %v", m), func() error { _, e := gs.ResolvePromise(ctx, m); return e }
		case promise.Rejected:
			m := wire(&pb.RejectPromiseRequest{Id: x.Id, IdempotencyKey: keyStr(x.IdempotencyKey), Strict: x.Strict, Value: pbValue(x.Value)}, &pb.RejectPromiseRequest{})
			return fmt.Sprintf("RejectPromise %v", m), func() error { _, e := gs.RejectPromise(ctx, m); return e }
		default:
			m := wire(&pb.CancelPromiseRequest{Id: x.Id, IdempotencyKey: keyStr(x.IdempotencyKey), Strict: x.Strict, Value: pbValue(x.Value)}, &pb.CancelPromiseRequest{})
			return fmt.Sprintf("CancelPromise %v", m), func() error { _, e := gs.CancelPromise(ctx, m); return e }
		}
	case t_api.CreateCallback:
		x := w.CreateCallback
		m := wire(&pb.CreateCallbackRequest{Id: x.Id, PromiseId: x.PromiseId, RootPromiseId: x.RootPromiseId, Timeout: x.Timeout, Recv: l.recv}, &pb.CreateCallbackRequest{})
		return fmt.Sprintf("CreateCallback %v", m), func() error { _, e := gs.CreateCallback(ctx, m); return e }
	case t_api.CreateSubscription:
		x := w.CreateSubscription
		m := wire(&pb.CreateSubscriptionRequest{Id: x.Id, PromiseId: x.PromiseId, Timeout: x.Timeout, Recv: l.recv}, &pb.CreateSubscriptionRequest{})
		return fmt.Sprintf("CreateSubscription %v", m), func() error { _, e := gs.CreateSubscription(ctx, m); return e }
	case t_api.ReadSchedule:
		m := wire(&pb.ReadScheduleRequest{Id: w.ReadSchedule.Id}, &pb.ReadScheduleRequest{})
		return fmt.Sprintf("ReadSchedule %v", m), func() error { _, e := gs.ReadSchedule(ctx, m); return e }
	case t_api.DeleteSchedule:
		m := wire(&pb.DeleteScheduleRequest{Id: w.DeleteSchedule.Id}, &pb.DeleteScheduleRequest{})
		return fmt.Sprintf("DeleteSchedule %v", m), func() error { _, e := gs.DeleteSchedule(ctx, m); return e }
	case t_api.CreateSchedule:
		x := w.CreateSchedule
		m := wire(&pb.CreateScheduleRequest{Id: x.Id, Description: x.Description, Cron: x.Cron, Tags: x.Tags, PromiseId: x.PromiseId, PromiseTimeout: x.PromiseTimeout,
			PromiseParam: pbValue(x.PromiseParam), PromiseTags: x.PromiseTags, IdempotencyKey: keyStr(x.IdempotencyKey)}, &pb.CreateScheduleRequest{})
		return fmt.Sprintf("CreateSchedule %v", m), func() error { _, e := gs.CreateSchedule(ctx, m); return e }
	case t_api.AcquireLock:
		x := w.AcquireLock
		m := wire(&pb.AcquireLockRequest{ResourceId: x.ResourceId, ExecutionId: x.ExecutionId, ProcessId: x.ProcessId, Ttl: x.Ttl}, &pb.AcquireLockRequest{})
		return fmt.Sprintf("AcquireLock %v", m), func() error { _, e := gs.AcquireLock(ctx, m); return e }
	case t_api.ReleaseLock:
		x := w.ReleaseLock
		m := wire(&pb.ReleaseLockRequest{ResourceId: x.ResourceId, ExecutionId: x.ExecutionId}, &pb.ReleaseLockRequest{})
		return fmt.Sprintf("ReleaseLock %v", m), func() error { _, e := gs.ReleaseLock(ctx, m); return e }
	case t_api.HeartbeatLocks:
		m := wire(&pb.HeartbeatLocksRequest{ProcessId: w.HeartbeatLocks.ProcessId}, &pb.HeartbeatLocksRequest{})
		return fmt.Sprintf("HeartbeatLocks %v", m), func() error { _, e := gs.HeartbeatLocks(ctx, m); return e }
	case t_api.ClaimTask:
		x := w.ClaimTask
		m := wire(&pb.ClaimTaskRequest{Id: x.Id, Counter: int32(x.Counter), ProcessId: x.ProcessId, Ttl: int32(x.Ttl)}, &pb.ClaimTaskRequest{})
		return fmt.Sprintf("ClaimTask %v", m), func() error { _, e := gs.ClaimTask(ctx, m); return e }
	case t_api.CompleteTask:
		x := w.CompleteTask
		m := wire(&pb.CompleteTaskRequest{Id: x.Id, Counter: int32(x.Counter)}, &pb.CompleteTaskRequest{})
		return fmt.Sprintf("CompleteTask %v", m), func() error { _, e := gs.CompleteTask(ctx, m); return e }
	case t_api.HeartbeatTasks:
		m := wire(&pb.HeartbeatTasksRequest{ProcessId: w.HeartbeatTasks.ProcessId}, &pb.HeartbeatTasksRequest{})
		return fmt.Sprintf("HeartbeatTasks %v", m), func() error { _, e := gs.HeartbeatTasks(ctx, m); return e }
	}
	panic("exprGRPC: kind")
}

func foutT(seen *t_api.Request, rejected, broken bool) term {
	if broken || (seen != nil && rejected) || (seen == nil && !rejected) {
		return C("FBroken")
	}
	if seen == nil {
		return C("FRejected")
	}
	cbid := ""
	if seen.Kind == t_api.CreateCallback {
		cbid = seen.CreateCallback.Id
	}
	return C("FReached", safeRequestT(seen), S(cbid))
}

func cmdEquiv(args []string) {
	fs := flag.NewFlagSet("equiv", flag.ExitOnError)
	seed := fs.Uint64("seed", 1, "base seed")
	n := fs.Int("n", 10, "number of case groups")
	out := fs.String("out", "-", "output file (JSON lines)")
	_ = fs.Int("workers", 1, "ignored")
	exact := fs.Uint64("seed-exact", 0, "run exactly this group seed (replay)")
	_ = fs.Parse(args)
	w := os.Stdout
	if *out != "-" {
		fh, err := os.Create(*out)
		if err != nil {
			panic(err)
		}
		defer fh.Close()
		w = fh
	}
	bw := bufio.NewWriterSize(w, 1<<20)
	defer bw.Flush()
	enc := json.NewEncoder(bw)

	stub := &stubAPI{}
	hs, err := httpApi.New(stub, &httpApi.Config{Addr: "127.0.0.1:0", Timeout: time.Second, TaskFrequency: time.Minute})
	if err != nil {
		panic(err)
	}
	errs := make(chan error, 1)
	go hs.Start(errs)
	time.Sleep(50 * time.Millisecond)
	defer hs.Stop()
	base := "http://" + hs.Addr()
	client := &http.Client{Timeout: 2 * time.Second}
	gs := grpcApi.VerifServer(stub)
	ctx := context.Background()

	for i := 0; i < *n; i++ {
		sd := *seed*1000003 + uint64(i)
		if *exact != 0 {
			sd = *exact
		}
		r := &rng{s: sd}
		cases := []term{}
		raws := []string{}
		stats := map[string]int{}
		for _, l := range genLogical(r) {
			// ---- HTTP ----
			c := exprHTTP(l)
			stub.seen = nil
			var hout term
			req, err := http.NewRequest(c.method, base+c.path, strings.NewReader(c.body))
			if err != nil {
				panic(err)
			}
			for k, v := range c.headers {
				req.Header.Set(k, v)
			}
			if c.body != "" {
				req.Header.Set("Content-Type", "application/json")
			}
			resp, err := client.Do(req)
			if err != nil {
				hout = C("FBroken")
			} else {
				_, _ = io.Copy(io.Discard, resp.Body)
				resp.Body.Close()
				hout = foutT(stub.seen, resp.StatusCode >= 400 && resp.StatusCode < 500, resp.StatusCode >= 500)
			}
			// a search that reached the kernel: the cursor a front end hands out must lead the kernel to exactly the next
			// request the kernel named (C14: the traversal continues where it stopped, whatever states / tags / limit it carries)
			if l.search != nil && stub.seen != nil && hout.([]any)[0].(string) == "FReached" {
				if !cursorRoundTripHTTP(stub, client, base, stub.seen) {
					hout = C("FBroken")
					stats["cursor-broken-http"]++
				} else {
					stats["cursor-ok-http"]++
				}
			}
			// ---- gRPC ----
			desc, f := exprGRPC(gs, ctx, l)
			stub.seen = nil
			rejected, broken := false, false
			func() {
				defer func() {
					if e := recover(); e != nil {
						broken = true
					}
				}()
				if err := f(); err != nil {
					if st, ok := status.FromError(err); ok && st.Code() == codes.InvalidArgument {
						rejected = true
					} else {
						broken = true
					}
				}
			}()
			gout := foutT(stub.seen, rejected, broken)
			if l.search != nil && stub.seen != nil && gout.([]any)[0].(string) == "FReached" {
				if !cursorRoundTripGRPC(stub, gs, ctx, stub.seen) {
					gout = C("FBroken")
					stats["cursor-broken-grpc"]++
				} else {
					stats["cursor-ok-grpc"]++
				}
			}
			for _, o := range []term{hout, gout} {
				stats[o.([]any)[0].(string)]++
			}
			cases = append(cases, C("CEquiv", logicalT(l), hout, gout))
			raws = append(raws, c.method+" "+c.path+" "+c.body+fmt.Sprintf(" %v", c.headers)+"  |  "+desc)
		}
		if err := enc.Encode(map[string]any{"family": "equiv", "seed": sd, "cases": cases, "stats": stats, "raw": raws}); err != nil {
			panic(err)
		}
	}
}

// nextOf is the request the (stub) kernel names as the continuation of a search: the same query below sort id 7
func nextOf(first *t_api.Request) (*t_api.Response, *t_api.Request) {
	sid := int64(7)
	switch first.Kind {
	case t_api.SearchPromises:
		n := *first.SearchPromises
		n.SortId = &sid
		return &t_api.Response{Kind: first.Kind, Tags: first.Tags, SearchPromises: &t_api.SearchPromisesResponse{Status: t_api.StatusOK,
			Cursor: &t_api.Cursor[t_api.SearchPromisesRequest]{Next: &n}, Promises: []*promise.Promise{}}}, &t_api.Request{Kind: first.Kind, SearchPromises: &n}
	case t_api.SearchSchedules:
		n := *first.SearchSchedules
		n.SortId = &sid
		return &t_api.Response{Kind: first.Kind, Tags: first.Tags, SearchSchedules: &t_api.SearchSchedulesResponse{Status: t_api.StatusOK,
			Cursor: &t_api.Cursor[t_api.SearchSchedulesRequest]{Next: &n}, Schedules: []*schedule.Schedule{}}}, &t_api.Request{Kind: first.Kind, SearchSchedules: &n}
	}
	return nil, nil
}

func sameSearch(a, b *t_api.Request) bool {
	if a == nil || b == nil || a.Kind != b.Kind {
		return false
	}
	if a.Kind == t_api.SearchPromises {
		return reflect.DeepEqual(a.SearchPromises, b.SearchPromises)
	}
	return reflect.DeepEqual(a.SearchSchedules, b.SearchSchedules)
}

func cursorRoundTripHTTP(stub *stubAPI, client *http.Client, base string, first *t_api.Request) (ok bool) {
	res, want := nextOf(first)
	if res == nil {
		return true
	}
	defer func() { stub.reply = nil }()
	stub.reply = func(*t_api.Request) (*t_api.Response, error) { return res, nil }
	path := "/promises"
	if first.Kind == t_api.SearchSchedules {
		path = "/schedules"
	}
	// ask again (the same query) to be handed the cursor
	q := url.Values{}
	if first.Kind == t_api.SearchPromises {
		q.Set("id", first.SearchPromises.Id)
		q.Set("limit", fmt.Sprintf("%d", first.SearchPromises.Limit))
	} else {
		q.Set("id", first.SearchSchedules.Id)
		q.Set("limit", fmt.Sprintf("%d", first.SearchSchedules.Limit))
	}
	resp, err := client.Get(base + path + "?" + q.Encode())
	if err != nil {
		return false
	}
	body, _ := io.ReadAll(resp.Body)
	resp.Body.Close()
	var parsed map[string]any
	if json.Unmarshal(body, &parsed) != nil {
		return false
	}
	tok, _ := parsed["cursor"].(string)
	if tok == "" {
		return false
	}
	stub.seen = nil
	resp, err = client.Get(base + path + "?cursor=" + url.QueryEscape(tok))
	if err != nil {
		return false
	}
	_, _ = io.Copy(io.Discard, resp.Body)
	resp.Body.Close()
	return resp.StatusCode == 200 && sameSearch(stub.seen, want)
}

func cursorRoundTripGRPC(stub *stubAPI, gs *grpcApi.VerifSrv, ctx context.Context, first *t_api.Request) (ok bool) {
	res, want := nextOf(first)
	if res == nil {
		return true
	}
	defer func() { stub.reply = nil }()
	defer func() {
		if e := recover(); e != nil {
			ok = false
		}
	}()
	stub.reply = func(*t_api.Request) (*t_api.Response, error) { return res, nil }
	tok := ""
	if first.Kind == t_api.SearchPromises {
		r, err := gs.SearchPromises(ctx, &pb.SearchPromisesRequest{Id: first.SearchPromises.Id, Limit: int32(first.SearchPromises.Limit)})
		if err != nil {
			return false
		}
		tok = r.Cursor
		stub.seen = nil
		if _, err := gs.SearchPromises(ctx, &pb.SearchPromisesRequest{Cursor: tok}); err != nil {
			return false
		}
	} else {
		r, err := gs.SearchSchedules(ctx, &pb.SearchSchedulesRequest{Id: first.SearchSchedules.Id, Limit: int32(first.SearchSchedules.Limit)})
		if err != nil {
			return false
		}
		tok = r.Cursor
		stub.seen = nil
		if _, err := gs.SearchSchedules(ctx, &pb.SearchSchedulesRequest{Cursor: tok}); err != nil {
			return false
		}
	}
	return tok != "" && sameSearch(stub.seen, want)
}

func init() { extraCmds["equiv"] = cmdEquiv }
