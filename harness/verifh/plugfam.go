//go:build verif

package main

// Family "plug" (C13 / C19): hostile receiver data through the production HTTP transport worker (Process called
// directly, recover around each call).  Receivers that answer 200, receivers that answer something else, and
// receivers that cannot be reached at all (bad url, unsupported scheme, refused connection, slow answer) must all end
// in a reported outcome (delivered / failed hand-off), never in a panic.  coq/Model/Plug.v predicts the outcome class.

import (
	"bufio"
	"encoding/json"
	"flag"
	"fmt"
	"net"
	"net/http"
	"net/http/httptest"
	"os"
	"time"

	httpPlugin "github.com/resonatehq/resonate/internal/app/plugins/http"
)

func cmdPlug(args []string) {
	fs := flag.NewFlagSet("plug", flag.ExitOnError)
	seed := fs.Uint64("seed", 1, "base seed")
	n := fs.Int("n", 10, "number of case groups")
	out := fs.String("out", "-", "output file (JSON lines)")
	_ = fs.Int("workers", 1, "ignored")
	exact := fs.Uint64("seed-exact", 0, "run exactly this group seed (replay)")
	_ = fs.Parse(args)
	w := os.Stdout
	if *out != "-" {
		fh, err := os.Create(*out)
		if err != nil {
			panic(err)
		}
		defer fh.Close()
		w = fh
	}
	bw := bufio.NewWriterSize(w, 1<<20)
	defer bw.Flush()
	enc := json.NewEncoder(bw)

	// loopback receivers: one answers 200, one 500, one 204, one too slowly
	mux := http.NewServeMux()
	mux.HandleFunc("/ok", func(rw http.ResponseWriter, r *http.Request) { rw.WriteHeader(200) })
	mux.HandleFunc("/err", func(rw http.ResponseWriter, r *http.Request) { rw.WriteHeader(500) })
	mux.HandleFunc("/nocontent", func(rw http.ResponseWriter, r *http.Request) { rw.WriteHeader(204) })
	mux.HandleFunc("/slow", func(rw http.ResponseWriter, r *http.Request) { time.Sleep(2500 * time.Millisecond); rw.WriteHeader(200) })
	srv := httptest.NewServer(mux)
	defer srv.Close()
	// a port nobody listens on
	l, err := net.Listen("tcp", "127.0.0.1:0")
	if err != nil {
		panic(err)
	}
	dead := l.Addr().String()
	l.Close()

	wk := httpPlugin.VerifWorker(1 * time.Second) // generous: a loaded machine must not turn a good receiver into a slow one
	type rc struct {
		data string
		cls  int64 // 0: answers 200; 1: answers, but not 200; 2: no answer can be had
	}
	pool := []rc{
		{fmt.Sprintf(`{"url":%q}`, srv.URL+"/ok"), 0},
		{fmt.Sprintf(`{"url":%q,"headers":{"x-a":"b","Content-Type":"text/plain"}}`, srv.URL+"/ok"), 0},
		{fmt.Sprintf(`{"url":%q,"headers":null}`, srv.URL+"/ok"), 0},
		{fmt.Sprintf(`{"url":%q}`, srv.URL+"/err"), 1},
		{fmt.Sprintf(`{"url":%q}`, srv.URL+"/nocontent"), 1},
		{fmt.Sprintf(`{"url":%q}`, srv.URL+"/slow"), 2},
		{fmt.Sprintf(`{"url":%q}`, "http://"+dead+"/x"), 2},
		{`{"url":"ftp://worker.invalid/resonate"}`, 2},
		{`{"url":""}`, 2},
		{`{}`, 2},
		{`{"url":"::not a url"}`, 2},
		{`{"url":"http://[::1"}`, 2},
		{`{"url":"mailto:x@y"}`, 2},
		{`{"url":"/relative/only"}`, 2},
		{`{"url":5}`, 2},
		{`null`, 2},
		{`[1,2]`, 2},
		{`"http://h/x"`, 2},
		{`{"url":"http://h/x"`, 2},
		{``, 2},
		{fmt.Sprintf(`{"url":%q,"headers":{"bad header name":"v"}}`, srv.URL+"/ok"), 2},
		{fmt.Sprintf(`{"url":%q,"headers":{"x":"line\nbreak"}}`, srv.URL+"/ok"), 2},
	}
	for i := 0; i < *n; i++ {
		sd := *seed*1000003 + uint64(i)
		if *exact != 0 {
			sd = *exact
		}
		r := &rng{s: sd}
		cases := []term{}
		raws := []string{}
		stats := map[string]int{}
		for k := 0; k < 14; k++ {
			c := pick(r, pool)
			body := pick(r, []string{`{"type":"invoke"}`, ``, `not json`})
			var obs int64
			func() {
				defer func() {
					if e := recover(); e != nil {
						obs = 2
					}
				}()
				ok, err := wk.Process([]byte(c.data), []byte(body))
				switch {
				case ok && err == nil:
					obs = 0
				case !ok:
					obs = 1
				default:
					obs = 3 // success together with an error
				}
			}()
			cases = append(cases, C("CPlug", c.cls, obs))
			raws = append(raws, fmt.Sprintf("http transport: receiver data %s body %q", c.data, body))
			stats[fmt.Sprintf("class%d:obs%d", c.cls, obs)]++
		}
		if err := enc.Encode(map[string]any{"family": "plug", "seed": sd, "cases": cases, "stats": stats, "raw": raws}); err != nil {
			panic(err)
		}
	}
}

func init() { extraCmds["plug"] = cmdPlug }
