//go:build verif

package main

// Differential execution of the store: random transactions of all 27 command kinds with arbitrary
// arguments (also ones no coroutine issues), random batching, against the real SqliteStore.Process;
// results and all five tables (observer connection) are recorded after every batch.

import (
	"bufio"
	"encoding/json"
	"flag"
	"fmt"
	"os"
	"path/filepath"
	"sync"
	"time"

	"database/sql"

	"github.com/prometheus/client_golang/prometheus"
	"github.com/resonatehq/resonate/internal/app/subsystems/aio/store/postgres"
	"github.com/resonatehq/resonate/internal/app/subsystems/aio/store/sqlite"
	"github.com/resonatehq/resonate/internal/kernel/bus"
	"github.com/resonatehq/resonate/internal/kernel/t_aio"
	"github.com/resonatehq/resonate/internal/metrics"
	"github.com/resonatehq/resonate/pkg/idempotency"
	"github.com/resonatehq/resonate/pkg/message"
	"github.com/resonatehq/resonate/pkg/promise"
	"github.com/resonatehq/resonate/pkg/task"
)

type storeTrace struct {
	Family string         `json:"family"`
	Seed   uint64         `json:"seed"`
	Events []event        `json:"events,omitempty"`
	Cases  []term         `json:"cases,omitempty"` // family commit: CCommit blocked txns obs
	Raw    []string       `json:"raw,omitempty"`
	Stats  map[string]int `json:"stats"`
	Error  string         `json:"error,omitempty"`
}

func nonNilMap(m map[string]string) map[string]string {
	if m == nil {
		return map[string]string{}
	}
	return m
}
func nonNilData(b []byte) []byte {
	if b == nil {
		return []byte{}
	}
	return b
}

var pids = []string{"a", "b", "a:b", "A", "ab"}
var cbids = []string{"__resume:a:b", "__resume:c:a", "__notify:a:s", "__invoke:a", "z", "__resume:a:b:c"}
var tids = []string{"__invoke:a", "__invoke:b", "__resume:a:b", "__notify:a:s", "z", "__resume:c:a"}
var procs = []string{"p1", "p2"}

func optStr(r *rng, xs []string) *string {
	if r.chance(0.3) {
		return nil
	}
	s := pick(r, xs)
	return &s
}

func randMesg(r *rng) *message.Mesg {
	return &message.Mesg{Type: message.Type(pick(r, []string{"invoke", "resume", "notify"})), Root: pick(r, pids), Leaf: pick(r, pids)}
}

func optInt64(r *rng, hi int) *int64 {
	if r.chance(0.3) {
		return nil
	}
	v := int64(r.intn(hi))
	return &v
}

func randStates(r *rng) []task.State {
	all := []task.State{task.Init, task.Enqueued, task.Claimed, task.Completed, task.Timedout}
	n := 1 + r.intn(3)
	out := []task.State{}
	for i := 0; i < n; i++ {
		out = append(out, pick(r, all))
	}
	return out
}

// conflict-heavy mode: one promise, one callback id that is also a task id, so that TASK_INSERT_ALL (which has
// no ON CONFLICT clause) raises UNIQUE errors at every position of a transaction
func conflictCommand(r *rng, stat map[string]int) *t_aio.Command {
	T := func() int64 { return int64(r.intn(12)) }
	var c *t_aio.Command
	switch r.intn(9) {
	case 0:
		cp := randCreatePromise(r)
		cp.Id = "a"
		c = &t_aio.Command{Kind: t_aio.CreatePromise, CreatePromise: cp}
	case 1, 2:
		c = &t_aio.Command{Kind: t_aio.CreateCallback, CreateCallback: &t_aio.CreateCallbackCommand{
			Id: "z", PromiseId: "a", Recv: []byte(recvOf(r)), Mesg: randMesg(r), Timeout: T(), CreatedOn: T()}}
	case 3:
		ct := randCreateTask(r)
		ct.Id = "z"
		c = &t_aio.Command{Kind: t_aio.CreateTask, CreateTask: ct}
	case 4, 5:
		c = &t_aio.Command{Kind: t_aio.CreateTasks, CreateTasks: &t_aio.CreateTasksCommand{PromiseId: "a", CreatedOn: T()}}
	case 6:
		c = &t_aio.Command{Kind: t_aio.AcquireLock, AcquireLock: &t_aio.AcquireLockCommand{
			ResourceId: pick(r, []string{"r1", "r2"}), ExecutionId: pick(r, []string{"e1", "e2"}), ProcessId: pick(r, procs), Ttl: int64(r.intn(4)), ExpiresAt: T()}}
	case 7:
		cp := randCreatePromise(r)
		c = &t_aio.Command{Kind: t_aio.CreatePromise, CreatePromise: cp}
	default:
		c = &t_aio.Command{Kind: t_aio.ReadTask, ReadTask: &t_aio.ReadTaskCommand{Id: "z"}}
	}
	stat["cmd:"+c.Kind.String()]++
	return c
}

func randCommand(r *rng, stat map[string]int) *t_aio.Command {
	T := func() int64 { return int64(r.intn(12)) }
	var c *t_aio.Command
	switch r.intn(27) {
	case 0:
		c = &t_aio.Command{Kind: t_aio.ReadPromise, ReadPromise: &t_aio.ReadPromiseCommand{Id: pick(r, pids)}}
	case 1:
		c = &t_aio.Command{Kind: t_aio.ReadPromises, ReadPromises: &t_aio.ReadPromisesCommand{Time: T(), Limit: pick(r, []int{0, 1, 2, 3, 100})}}
	case 2:
		var sid *int64
		if r.chance(0.5) {
			sid = optInt64(r, 8)
		}
		all := []promise.State{promise.Pending, promise.Resolved, promise.Rejected, promise.Canceled, promise.Timedout}
		st := []promise.State{}
		for i := 0; i < 1+r.intn(3); i++ {
			st = append(st, pick(r, all))
		}
		c = &t_aio.Command{Kind: t_aio.SearchPromises, SearchPromises: &t_aio.SearchPromisesCommand{
			Id: pick(r, []string{"*", "*", "*", "a*", "*b", "a_b", "A*", "*:*", "a"}), States: st,
			Tags: pick(r, []map[string]string{{}, {}, {}, {"a": "1"}, {"a": "2", "b": "x y"}, {"a.b": "1"}, {"x": "1"}}), Limit: pick(r, []int{1, 2, 3, 100}), SortId: sid}}
	case 3:
		c = &t_aio.Command{Kind: t_aio.CreatePromise, CreatePromise: randCreatePromise(r)}
	case 4:
		c = &t_aio.Command{Kind: t_aio.UpdatePromise, UpdatePromise: &t_aio.UpdatePromiseCommand{
			Id: pick(r, pids), State: pick(r, []promise.State{promise.Resolved, promise.Rejected, promise.Canceled, promise.Timedout}),
			Value: promise.Value{Headers: nonNilMap(smallMap(r)), Data: nonNilData(smallData(r))}, IdempotencyKey: key(r), CompletedOn: T()}}
	case 5:
		c = &t_aio.Command{Kind: t_aio.CreateCallback, CreateCallback: &t_aio.CreateCallbackCommand{
			Id: pick(r, cbids), PromiseId: pick(r, pids), Recv: []byte(recvOf(r)), Mesg: randMesg(r), Timeout: T(), CreatedOn: T()}}
	case 6:
		c = &t_aio.Command{Kind: t_aio.DeleteCallbacks, DeleteCallbacks: &t_aio.DeleteCallbacksCommand{PromiseId: pick(r, pids)}}
	case 7:
		c = &t_aio.Command{Kind: t_aio.ReadSchedule, ReadSchedule: &t_aio.ReadScheduleCommand{Id: pick(r, []string{"s1", "s2", "S1"})}}
	case 8:
		c = &t_aio.Command{Kind: t_aio.ReadSchedules, ReadSchedules: &t_aio.ReadSchedulesCommand{NextRunTime: T(), Limit: pick(r, []int{0, 1, 2, 100})}}
	case 9:
		var sid *int64
		if r.chance(0.5) {
			sid = optInt64(r, 6)
		}
		c = &t_aio.Command{Kind: t_aio.SearchSchedules, SearchSchedules: &t_aio.SearchSchedulesCommand{
			Id: pick(r, []string{"*", "s*", "*1", "s_"}), Tags: pick(r, []map[string]string{{}, {"a": "1"}}), Limit: pick(r, []int{1, 2, 100}), SortId: sid}}
	case 10:
		c = &t_aio.Command{Kind: t_aio.CreateSchedule, CreateSchedule: &t_aio.CreateScheduleCommand{
			Id: pick(r, []string{"s1", "s2", "S1"}), Description: pick(r, []string{"", "d"}), Cron: "* * * * *", Tags: nonNilMap(smallMap(r)),
			PromiseId: "x.{{.timestamp}}", PromiseTimeout: T(), PromiseParam: promise.Value{Headers: nonNilMap(smallMap(r)), Data: nonNilData(smallData(r))},
			PromiseTags: nonNilMap(smallMap(r)), NextRunTime: T(), IdempotencyKey: key(r), CreatedOn: T()}}
	case 11:
		c = &t_aio.Command{Kind: t_aio.UpdateSchedule, UpdateSchedule: &t_aio.UpdateScheduleCommand{Id: pick(r, []string{"s1", "s2", "S1"}), LastRunTime: optInt64(r, 12), NextRunTime: T()}}
	case 12:
		c = &t_aio.Command{Kind: t_aio.DeleteSchedule, DeleteSchedule: &t_aio.DeleteScheduleCommand{Id: pick(r, []string{"s1", "s2", "S1"})}}
	case 13:
		c = &t_aio.Command{Kind: t_aio.ReadTask, ReadTask: &t_aio.ReadTaskCommand{Id: pick(r, tids)}}
	case 14:
		c = &t_aio.Command{Kind: t_aio.ReadEnqueueableTasks, ReadEnquableTasks: &t_aio.ReadEnqueueableTasksCommand{Time: T(), Limit: pick(r, []int{1, 2, 3, 100})}}
	case 15:
		c = &t_aio.Command{Kind: t_aio.ReadTasks, ReadTasks: &t_aio.ReadTasksCommand{States: randStates(r), Time: T(), Limit: pick(r, []int{1, 2, 100})}}
	case 16:
		c = &t_aio.Command{Kind: t_aio.CreateTask, CreateTask: randCreateTask(r)}
	case 17:
		c = &t_aio.Command{Kind: t_aio.CreateTasks, CreateTasks: &t_aio.CreateTasksCommand{PromiseId: pick(r, pids), CreatedOn: T()}}
	case 18:
		c = &t_aio.Command{Kind: t_aio.CompleteTasks, CompleteTasks: &t_aio.CompleteTasksCommand{RootPromiseId: pick(r, pids), CompletedOn: T()}}
	case 19:
		c = &t_aio.Command{Kind: t_aio.UpdateTask, UpdateTask: &t_aio.UpdateTaskCommand{
			Id: pick(r, tids), ProcessId: optStr(r, procs), State: pick(r, []task.State{task.Init, task.Enqueued, task.Claimed, task.Completed, task.Timedout}),
			Counter: 1 + r.intn(3), Attempt: r.intn(3), Ttl: r.intn(4), ExpiresAt: T(), CompletedOn: optInt64(r, 12),
			CurrentStates: randStates(r), CurrentCounter: 1 + r.intn(3)}}
	case 20:
		c = &t_aio.Command{Kind: t_aio.HeartbeatTasks, HeartbeatTasks: &t_aio.HeartbeatTasksCommand{ProcessId: pick(r, procs), Time: T()}}
	case 21:
		c = &t_aio.Command{Kind: t_aio.CreatePromiseAndTask, CreatePromiseAndTask: &t_aio.CreatePromiseAndTaskCommand{PromiseCommand: randCreatePromise(r), TaskCommand: randCreateTask(r)}}
	case 22:
		c = &t_aio.Command{Kind: t_aio.ReadLock, ReadLock: &t_aio.ReadLockCommand{ResourceId: pick(r, []string{"r1", "r2"})}}
	case 23:
		c = &t_aio.Command{Kind: t_aio.AcquireLock, AcquireLock: &t_aio.AcquireLockCommand{
			ResourceId: pick(r, []string{"r1", "r2"}), ExecutionId: pick(r, []string{"e1", "e2"}), ProcessId: pick(r, procs), Ttl: int64(r.intn(4)), ExpiresAt: T()}}
	case 24:
		c = &t_aio.Command{Kind: t_aio.ReleaseLock, ReleaseLock: &t_aio.ReleaseLockCommand{ResourceId: pick(r, []string{"r1", "r2"}), ExecutionId: pick(r, []string{"e1", "e2"})}}
	case 25:
		c = &t_aio.Command{Kind: t_aio.HeartbeatLocks, HeartbeatLocks: &t_aio.HeartbeatLocksCommand{ProcessId: pick(r, procs), Time: T()}}
	default:
		c = &t_aio.Command{Kind: t_aio.TimeoutLocks, TimeoutLocks: &t_aio.TimeoutLocksCommand{Timeout: T()}}
	}
	stat["cmd:"+c.Kind.String()]++
	return c
}

func randCreatePromise(r *rng) *t_aio.CreatePromiseCommand {
	var k *idempotency.Key = key(r)
	return &t_aio.CreatePromiseCommand{Id: pick(r, pids), Param: promise.Value{Headers: nonNilMap(smallMap(r)), Data: nonNilData(smallData(r))},
		Timeout: int64(r.intn(12)), IdempotencyKey: k, Tags: nonNilMap(smallMap(r)), CreatedOn: int64(r.intn(12))}
}

func randCreateTask(r *rng) *t_aio.CreateTaskCommand {
	st := pick(r, []task.State{task.Init, task.Claimed})
	var pid *string
	if st == task.Claimed || r.chance(0.2) {
		p := pick(r, procs)
		pid = &p
	}
	return &t_aio.CreateTaskCommand{Id: pick(r, tids), Recv: []byte(recvOf(r)), Mesg: randMesg(r), Timeout: int64(r.intn(12)), ProcessId: pid,
		State: st, Ttl: r.intn(4), ExpiresAt: int64(r.intn(12)), CreatedOn: int64(r.intn(12))}
}

// block: family "commit" - at some steps a second connection holds a read transaction on the database file while the
// batch runs, so that the store's COMMIT cannot get its lock and fails after the (short) busy timeout
func runStoreTrace(seed uint64, dir string, steps int, block bool, pg bool) (tr *storeTrace) {
	r := &rng{s: seed}
	conflict := seed%4 == 3
	tr = &storeTrace{Family: "store", Seed: seed, Stats: map[string]int{}}
	if block {
		tr.Family = "commit"
	}
	if pg {
		tr.Family = "pgstore"
	}
	path := filepath.Join(dir, fmt.Sprintf("s%d_%v_%v.db", seed, block, pg))
	_ = os.Remove(path)
	defer func() {
		if e := recover(); e != nil {
			tr.Error = fmt.Sprintf("harness panic: %v", e)
		}
		_ = os.Remove(path)
		_ = os.Remove(path + "-journal")
	}()
	m := metrics.New(prometheus.NewRegistry())
	dsn := path
	if block {
		dsn = path + "?_busy_timeout=40"
	}
	st, err := sqlite.New(nil, m, &sqlite.Config{BatchSize: 100, Path: dsn, TxTimeout: 10 * time.Second})
	if err != nil {
		tr.Error = err.Error()
		return tr
	}
	if err := st.Start(nil); err != nil {
		tr.Error = err.Error()
		return tr
	}
	defer func() { _ = st.Stop() }()
	// family pgstore: the tables are the SQLite ones (created by the SQLite store above); the batches are executed by
	// the production Postgres store worker through the dialect shim
	type processor interface {
		Process([]*bus.SQE[t_aio.Submission, t_aio.Completion]) []*bus.CQE[t_aio.Submission, t_aio.Completion]
	}
	var exec processor = st
	// family commit, second way of losing a transaction: the transaction's deadline (tx-timeout) passes while a write
	// statement waits for the file's write lock; database/sql then rolls the transaction back on its own and the
	// COMMIT that follows is refused.  A second store on the same file with a short deadline and a long busy timeout.
	var late processor
	if block {
		st2, err := sqlite.New(nil, m, &sqlite.Config{BatchSize: 100, Path: path + "?_busy_timeout=5000", TxTimeout: 100 * time.Millisecond})
		if err != nil {
			tr.Error = err.Error()
			return tr
		}
		if err := st2.Start(nil); err != nil {
			tr.Error = err.Error()
			return tr
		}
		defer func() { _ = st2.Stop() }()
		late = st2
	}
	if pg {
		pdb, err := sql.Open("pgshim", path)
		if err != nil {
			tr.Error = err.Error()
			return tr
		}
		defer pdb.Close()
		exec = postgres.VerifWorker(pdb, m)
	}
	ob, err := newObserver(path)
	if err != nil {
		tr.Error = err.Error()
		return tr
	}
	defer ob.close()
	for s := 0; s < steps; s++ {
		ntx := 1 + r.intn(3)
		sqes := []*bus.SQE[t_aio.Submission, t_aio.Completion]{}
		txns := []term{}
		for i := 0; i < ntx; i++ {
			ncmd := 1 + r.intn(3)
			cmds := []*t_aio.Command{}
			for j := 0; j < ncmd; j++ {
				for {
					var c *t_aio.Command
					if conflict {
						c = conflictCommand(r, tr.Stats)
					} else {
						c = randCommand(r, tr.Stats)
					}
					// the enqueueable selection differs structurally between the back ends (DISTINCT ON) and is not sent
					// through the shim; the two tag searches are (their containment operator is a registered function)
					if pg && c.Kind == t_aio.ReadEnqueueableTasks {
						continue
					}
					cmds = append(cmds, c)
					break
				}
			}
			tx := &t_aio.Transaction{Commands: cmds}
			sqes = append(sqes, &bus.SQE[t_aio.Submission, t_aio.Completion]{Id: "x", Submission: &t_aio.Submission{Kind: t_aio.Store, Tags: map[string]string{"id": "x"}, Store: &t_aio.StoreSubmission{Transaction: tx}}, Callback: func(*t_aio.Completion, error) {}})
			txns = append(txns, TxnT(tx))
		}
		blocked := block && r.chance(0.3)
		// one blocked batch in eight loses its transaction to the deadline instead of to a reader (only batches that
		// write: a batch of reads does not wait for the write lock)
		deadline := blocked && s%8 == 3 && !readsOnly(sqes)
		var release func()
		var cqes []*bus.CQE[t_aio.Submission, t_aio.Completion]
		if deadline {
			release, err = ob.holdWrite()
			if err != nil {
				tr.Error = err.Error()
				return tr
			}
			timer := time.AfterFunc(1500*time.Millisecond, release) // 1.4 s of slack: the deadline must pass while the lock is held
			cqes = late.Process(sqes)
			if timer.Stop() {
				release()
			}
			release = nil
			ob.quiesce()
			tr.Stats["commit:deadline"]++
		} else {
			if blocked {
				release, err = ob.holdRead()
				if err != nil {
					tr.Error = err.Error()
					return tr
				}
			}
			cqes = exec.Process(sqes)
		}
		if release != nil {
			release()
		}
		var results term
		all := []term{}
		hintsAll := []term{}
		failed := false
		for _, cqe := range cqes {
			hints := []term{}
			if cqe.Error != nil {
				failed = true
				hintsAll = append(hintsAll, L())
				continue
			}
			for j, res := range cqe.Completion.Store.Results {
				if res.Kind == t_aio.ReadEnqueueableTasks {
					for len(hints) < j {
						hints = append(hints, nil)
					}
					ids := []term{}
					for _, rec := range res.ReadEnqueueableTasks.Records {
						ids = append(ids, S(rec.Id))
					}
					hints = append(hints, Some(L(ids...)))
				}
			}
			hintsAll = append(hintsAll, L(hints...))
			all = append(all, ResultsT(cqe.Completion.Store.Results))
		}
		if !failed {
			results = Some(L(all...))
			tr.Stats["batch:ok"]++
		} else {
			tr.Stats["batch:error"]++
		}
		snap, err := ob.snap()
		if err != nil {
			tr.Error = err.Error()
			return tr
		}
		items := []term{}
		for i := range txns {
			items = append(items, C("tx", txns[i], hintsAll[i]))
		}
		if block {
			tr.Cases = append(tr.Cases, C("CCommit", blocked, L(items...), C("OExec", L(txns...), results, snap.term())))
			tr.Raw = append(tr.Raw, fmt.Sprintf("batch %d of the trace (commit blocked by a reader: %v): the store reported %s", s, blocked, map[bool]string{true: "an error", false: "success"}[failed]))
			if blocked {
				tr.Stats["commit:blocked"]++
			}
		} else {
			tr.Events = append(tr.Events, event{D: L(items...), O: []term{C("OExec", L(txns...), results, snap.term())}})
		}
	}
	return tr
}

func readsOnly(sqes []*bus.SQE[t_aio.Submission, t_aio.Completion]) bool {
	for _, sqe := range sqes {
		for _, c := range sqe.Submission.Store.Transaction.Commands {
			switch c.Kind {
			case t_aio.ReadPromise, t_aio.ReadPromises, t_aio.SearchPromises, t_aio.ReadSchedule, t_aio.ReadSchedules, t_aio.SearchSchedules,
				t_aio.ReadTask, t_aio.ReadTasks, t_aio.ReadEnqueueableTasks, t_aio.ReadLock:
			default:
				return false
			}
		}
	}
	return true
}

func cmdStore(args []string)   { cmdStoreX(args, 0) }
func cmdCommit(args []string)  { cmdStoreX(args, 1) }
func cmdPgStore(args []string) { cmdStoreX(args, 2) }

func cmdStoreX(args []string, mode int) {
	fs := flag.NewFlagSet("store", flag.ExitOnError)
	seed := fs.Uint64("seed", 1, "base seed")
	n := fs.Int("n", 10, "number of traces")
	steps := fs.Int("steps", 25, "batches per trace")
	out := fs.String("out", "-", "output file (JSON lines)")
	dir := fs.String("dir", "/dev/shm", "scratch directory")
	workers := fs.Int("workers", 8, "parallel traces")
	exact := fs.Uint64("seed-exact", 0, "run exactly this trace seed (replay)")
	_ = fs.Parse(args)
	w := os.Stdout
	if *out != "-" {
		fh, err := os.Create(*out)
		if err != nil {
			panic(err)
		}
		defer fh.Close()
		w = fh
	}
	bw := bufio.NewWriterSize(w, 1<<20)
	defer bw.Flush()
	traces := make([]*storeTrace, *n)
	var wg sync.WaitGroup
	sem := make(chan struct{}, *workers)
	for i := 0; i < *n; i++ {
		wg.Add(1)
		sem <- struct{}{}
		go func(i int) {
			defer wg.Done()
			defer func() { <-sem }()
			sd := *seed*1000003 + uint64(i)
			if *exact != 0 {
				sd = *exact
			}
			traces[i] = runStoreTrace(sd, *dir, *steps, mode == 1, mode == 2)
		}(i)
	}
	wg.Wait()
	enc := json.NewEncoder(bw)
	for _, t := range traces {
		if err := enc.Encode(t); err != nil {
			panic(err)
		}
	}
}

func init() { extraCmds["commit"] = cmdCommit; extraCmds["pgstore"] = cmdPgStore }
