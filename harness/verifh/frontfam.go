//go:build verif

package main

// Family "front" (C13): hostile raw requests through the production HTTP front end (real server on loopback) and
// the production gRPC handlers (called directly, recover around each call), with a stub kernel behind them that
// records what reaches it and answers every request kind with a well-formed success.  coq/Model/Valid.v judges:
// nothing panics, and whatever reaches the kernel is something the kernel can take (req_wf_b).

import (
	"bufio"
	"bytes"
	"context"
	"encoding/json"
	"flag"
	"fmt"
	"io"
	"net/http"
	"os"
	"strings"
	"time"

	i_api "github.com/resonatehq/resonate/internal/api"
	grpcApi "github.com/resonatehq/resonate/internal/app/subsystems/api/grpc"
	"github.com/resonatehq/resonate/internal/app/subsystems/api/grpc/pb"
	httpApi "github.com/resonatehq/resonate/internal/app/subsystems/api/http"
	"github.com/resonatehq/resonate/internal/kernel/bus"
	"github.com/resonatehq/resonate/internal/kernel/t_api"
	"github.com/resonatehq/resonate/pkg/callback"
	"github.com/resonatehq/resonate/pkg/lock"
	"github.com/resonatehq/resonate/pkg/message"
	"github.com/resonatehq/resonate/pkg/promise"
	"github.com/resonatehq/resonate/pkg/schedule"
	"github.com/resonatehq/resonate/pkg/task"
	"google.golang.org/grpc/codes"
	"google.golang.org/grpc/status"
)

type stubAPI struct {
	seen  *t_api.Request
	reply func(*t_api.Request) (*t_api.Response, error) // nil: canned success
}

func (a *stubAPI) String() string                               { return "api:stub" }
func (a *stubAPI) Start() error                                 { return nil }
func (a *stubAPI) Stop() error                                  { return nil }
func (a *stubAPI) Shutdown()                                    {}
func (a *stubAPI) Done() bool                                   { return false }
func (a *stubAPI) Errors() <-chan error                         { return nil }
func (a *stubAPI) Signal(<-chan interface{}) <-chan interface{} { panic("not used") }
func (a *stubAPI) DequeueSQE(int) []*bus.SQE[t_api.Request, t_api.Response] { panic("not used") }
func (a *stubAPI) EnqueueCQE(*bus.CQE[t_api.Request, t_api.Response])       { panic("not used") }
func (a *stubAPI) DequeueCQE(cq <-chan *bus.CQE[t_api.Request, t_api.Response]) *bus.CQE[t_api.Request, t_api.Response] {
	return <-cq
}
func (a *stubAPI) EnqueueSQE(sqe *bus.SQE[t_api.Request, t_api.Response]) {
	a.seen = sqe.Submission
	if a.reply != nil {
		res, err := a.reply(sqe.Submission)
		go sqe.Callback(res, err)
		return
	}
	go sqe.Callback(canned(sqe.Submission), nil)
}

var _ i_api.API = (*stubAPI)(nil)

func canned(r *t_api.Request) *t_api.Response {
	now := int64(1)
	p := &promise.Promise{Id: "p", State: promise.Pending, Timeout: 10, Param: promise.Value{Headers: map[string]string{}, Data: []byte{}}, Tags: map[string]string{}, CreatedOn: &now}
	t := &task.Task{Id: "t", Counter: 1, Mesg: &message.Mesg{Type: message.Invoke, Root: "p", Leaf: "p"}, CreatedOn: &now}
	s := &schedule.Schedule{Id: "s", Cron: "* * * * *", PromiseId: "x", PromiseParam: promise.Value{}, CreatedOn: 1}
	cb := &callback.Callback{Id: "c", PromiseId: "p", Timeout: 10, CreatedOn: 1}
	res := &t_api.Response{Kind: r.Kind, Tags: r.Tags}
	switch r.Kind {
	case t_api.ReadPromise:
		res.ReadPromise = &t_api.ReadPromiseResponse{Status: t_api.StatusOK, Promise: p}
	case t_api.SearchPromises:
		res.SearchPromises = &t_api.SearchPromisesResponse{Status: t_api.StatusOK, Promises: []*promise.Promise{p}}
	case t_api.CreatePromise:
		res.CreatePromise = &t_api.CreatePromiseResponse{Status: t_api.StatusCreated, Promise: p}
	case t_api.CreatePromiseAndTask:
		res.CreatePromiseAndTask = &t_api.CreatePromiseAndTaskResponse{Status: t_api.StatusCreated, Promise: p, Task: t}
	case t_api.CompletePromise:
		res.CompletePromise = &t_api.CompletePromiseResponse{Status: t_api.StatusCreated, Promise: p}
	case t_api.CreateCallback:
		res.CreateCallback = &t_api.CreateCallbackResponse{Status: t_api.StatusCreated, Callback: cb, Promise: p}
	case t_api.CreateSubscription:
		res.CreateSubscription = &t_api.CreateSubscriptionResponse{Status: t_api.StatusCreated, Callback: cb, Promise: p}
	case t_api.ReadSchedule:
		res.ReadSchedule = &t_api.ReadScheduleResponse{Status: t_api.StatusOK, Schedule: s}
	case t_api.SearchSchedules:
		res.SearchSchedules = &t_api.SearchSchedulesResponse{Status: t_api.StatusOK, Schedules: []*schedule.Schedule{s}}
	case t_api.CreateSchedule:
		res.CreateSchedule = &t_api.CreateScheduleResponse{Status: t_api.StatusCreated, Schedule: s}
	case t_api.DeleteSchedule:
		res.DeleteSchedule = &t_api.DeleteScheduleResponse{Status: t_api.StatusNoContent}
	case t_api.AcquireLock:
		res.AcquireLock = &t_api.AcquireLockResponse{Status: t_api.StatusCreated, Lock: &lock.Lock{ResourceId: "r", ExecutionId: "e", ProcessId: "p", }}
	case t_api.ReleaseLock:
		res.ReleaseLock = &t_api.ReleaseLockResponse{Status: t_api.StatusNoContent}
	case t_api.HeartbeatLocks:
		res.HeartbeatLocks = &t_api.HeartbeatLocksResponse{Status: t_api.StatusOK}
	case t_api.ClaimTask:
		res.ClaimTask = &t_api.ClaimTaskResponse{Status: t_api.StatusCreated, Task: t, RootPromise: p, RootPromiseHref: "h"}
	case t_api.CompleteTask:
		res.CompleteTask = &t_api.CompleteTaskResponse{Status: t_api.StatusCreated, Task: t}
	case t_api.HeartbeatTasks:
		res.HeartbeatTasks = &t_api.HeartbeatTasksResponse{Status: t_api.StatusOK}
	}
	return res
}

// a request whose payload is nil (e.g. a cursor whose Next is null) cannot be encoded: it is reported as a search
// with an empty id, which no front end may let through
func safeRequestT(r *t_api.Request) (t term) {
	defer func() {
		if e := recover(); e != nil {
			t = C("QSearchSchedules", S(""), L(), int64(0), nil)
		}
	}()
	// a search that names no states (nil, not the empty list) is not something the kernel can take: the store asserts
	// on it; the model's request type has no nil, so it is reported as the invalid search as well
	if r.Kind == t_api.SearchPromises && r.SearchPromises != nil && r.SearchPromises.States == nil {
		return C("QSearchSchedules", S(""), L(), int64(0), nil)
	}
	return RequestT(r)
}

type rawHTTP struct {
	method, path, body string
	headers            map[string]string
}

func forgedCursors() []string {
	out := []string{"garbage", "a.b.c", ""}
	zero := int64(0)
	for _, next := range []*t_api.SearchPromisesRequest{
		{Id: "*", States: []promise.State{promise.Pending}, Tags: map[string]string{}, Limit: 0},
		{Id: "", States: []promise.State{promise.Pending}, Tags: map[string]string{}, Limit: 10},
		{Id: "*", States: nil, Tags: nil, Limit: -5, SortId: &zero},
		{Id: "*", States: nil, Tags: map[string]string{}, Limit: 10},                       // as valid as a fresh request, except that it names no states at all
		{Id: "*", States: nil, Tags: nil, Limit: 10, SortId: &zero},
		{Id: "a*", States: []promise.State{}, Tags: nil, Limit: 1},
		nil,
	} {
		c := &t_api.Cursor[t_api.SearchPromisesRequest]{Next: next}
		if s, err := c.Encode(); err == nil {
			out = append(out, s)
		}
	}
	return out
}

func httpCases(r *rng) []rawHTTP {
	j := func(v any) string { b, _ := json.Marshal(v); return string(b) }
	vals := []any{nil, "", "x", 0, -1, 1, 1e30, -9223372036854775808.0, true, []any{}, map[string]any{}, "a/b", " "}
	pv := func() any { return pick(r, vals) }
	cs := []rawHTTP{}
	add := func(m, p, b string, h map[string]string) { cs = append(cs, rawHTTP{m, p, b, h}) }
	hdr := func() map[string]string {
		h := map[string]string{}
		if r.chance(0.3) {
			h["strict"] = pick(r, []string{"true", "maybe", "", "1"})
		}
		if r.chance(0.3) {
			h["idempotency-key"] = pick(r, []string{"k", "", " "})
		}
		if r.chance(0.2) {
			h["request-id"] = pick(r, []string{"", "rid", "a b"})
		}
		return h
	}
	for k := 0; k < 6; k++ {
		add("POST", "/promises", j(map[string]any{"id": pv(), "timeout": pv(), "param": pv(), "tags": pv()}), hdr())
		add("POST", "/promises/task", j(map[string]any{"promise": map[string]any{"id": pv(), "timeout": pv()}, "task": map[string]any{"processId": pv(), "ttl": pv()}}), hdr())
		add("POST", "/promises/task", j(map[string]any{"promise": pv(), "task": pv()}), hdr())
		add("PATCH", "/promises/"+pick(r, []string{"p", "a%2Fb", "a/b", "%00", " "}), j(map[string]any{"state": pv(), "value": pv()}), hdr())
		add("PATCH", "/promises/p", j(map[string]any{"state": pick(r, []any{"RESOLVED", "REJECTED", "REJECTED_CANCELED", "REJECTED_TIMEDOUT", "PENDING", "resolved", 2, "X"}), "value": map[string]any{"headers": pv(), "data": pv()}}), hdr())
		// every state name (any letter case is accepted by the decoder) with an otherwise valid body
		add("PATCH", "/promises/p", j(map[string]any{"state": pick(r, []any{"PENDING", "pending", "Pending", "REJECTED_TIMEDOUT", "rejected_timedout", "RESOLVED", "REJECTED", "REJECTED_CANCELED", "resolved"})}), hdr())
		add("GET", "/promises?id="+pick(r, []string{"*", "", "a*", "%25"})+"&state="+pick(r, []string{"", "pending", "PENDING", "x", "rejected"})+"&limit="+pick(r, []string{"", "0", "1", "100", "101", "-1", "x", "99999999999999999999"}), "", hdr())
		add("GET", "/promises?cursor="+pick(r, forgedCursors()), "", hdr())
		add("GET", "/promises/"+pick(r, []string{"p", "a/b", "a%2Fb"}), "", hdr())
		add("POST", "/callbacks", j(map[string]any{"Id": pv(), "promiseId": pv(), "rootPromiseId": pv(), "timeout": pv(), "recv": pick(r, []any{nil, "default", map[string]any{"type": "poll", "data": nil}, 5, []any{}, map[string]any{}})}), hdr())
		add("POST", "/subscriptions", j(map[string]any{"Id": pv(), "promiseId": pv(), "timeout": pv(), "recv": pick(r, []any{nil, "default", map[string]any{"type": "x"}, 5})}), hdr())
		add("POST", "/schedules", j(map[string]any{"id": pv(), "cron": pick(r, []any{"* * * * *", "", "x", nil, 5, "@every 1s", "* * * * * * *", "TZ=UTC", "CRON_TZ=Europe/Paris", "TZ=UTC * * * * *", "@every", "@", "TZ=UTC ", "CRON_TZ=UTC \n", "TZ= ", " TZ=UTC", "@daily\n", " * * * * * ", "TZ=UTC\t* * * * *", "TZ=UTC\t@daily", "TZ=UTC\n@hourly", "TZ=UTC\u00a0@daily"}), "promiseId": pv(), "promiseTimeout": pv(), "promiseParam": pv(), "promiseTags": pv(), "tags": pv()}), hdr())
		add("GET", "/schedules?id="+pick(r, []string{"*", ""})+"&limit="+pick(r, []string{"", "0", "-1", "101", "5"}), "", hdr())
		add("GET", "/schedules?cursor="+pick(r, forgedCursors()), "", hdr())
		add("DELETE", "/schedules/"+pick(r, []string{"s", "a/b"}), "", hdr())
		add("POST", "/locks/acquire", j(map[string]any{"resourceId": pv(), "executionId": pv(), "processId": pv(), "ttl": pv()}), hdr())
		add("POST", "/locks/release", j(map[string]any{"resourceId": pv(), "executionId": pv()}), hdr())
		add("POST", "/locks/heartbeat", j(map[string]any{"processId": pv()}), hdr())
		add("POST", "/tasks/claim", j(map[string]any{"id": pv(), "counter": pv(), "processId": pv(), "ttl": pv()}), hdr())
		add("GET", "/tasks/claim/"+pick(r, []string{"t", "a%2Fb", " "})+"/"+pick(r, []string{"1", "0", "-1", "x", "99999999999999999999"}), "", hdr())
		add("POST", "/tasks/complete", j(map[string]any{"id": pv(), "counter": pv()}), hdr())
		add("GET", "/tasks/complete/t/"+pick(r, []string{"1", "x", "-1"}), "", hdr())
		add("POST", "/tasks/heartbeat", j(map[string]any{"processId": pv()}), hdr())
		add("GET", "/tasks/heartbeat/t/"+pick(r, []string{"1", "x"}), "", hdr())
		add("POST", "/promises", pick(r, []string{"", "null", "[]", "{", "\"x\"", "{\"id\":\"p\",\"timeout\":1}trailing"}), hdr())
	}
	return cs
}

func cmdFront(args []string) {
	fs := flag.NewFlagSet("front", flag.ExitOnError)
	seed := fs.Uint64("seed", 1, "base seed")
	n := fs.Int("n", 10, "number of case groups")
	out := fs.String("out", "-", "output file (JSON lines)")
	_ = fs.Int("workers", 1, "ignored")
	exact := fs.Uint64("seed-exact", 0, "run exactly this group seed (replay)")
	_ = fs.Parse(args)
	w := os.Stdout
	if *out != "-" {
		fh, err := os.Create(*out)
		if err != nil {
			panic(err)
		}
		defer fh.Close()
		w = fh
	}
	bw := bufio.NewWriterSize(w, 1<<20)
	defer bw.Flush()
	enc := json.NewEncoder(bw)

	stub := &stubAPI{}
	hs, err := httpApi.New(stub, &httpApi.Config{Addr: "127.0.0.1:0", Timeout: time.Second, TaskFrequency: time.Minute})
	if err != nil {
		panic(err)
	}
	errs := make(chan error, 1)
	go hs.Start(errs)
	time.Sleep(50 * time.Millisecond)
	defer hs.Stop()
	base := "http://" + hs.Addr()
	client := &http.Client{Timeout: 2 * time.Second}
	gs := grpcApi.VerifServer(stub)
	ctx := context.Background()

	for i := 0; i < *n; i++ {
		sd := *seed*1000003 + uint64(i)
		if *exact != 0 {
			sd = *exact
		}
		r := &rng{s: sd}
		cases := []term{}
		raws := []string{}
		stats := map[string]int{}
		record := func(grpc bool, desc string, panicked bool, clientErr bool) {
			var seen term
			if stub.seen != nil {
				seen = Some(safeRequestT(stub.seen))
				stats["reached-kernel"]++
			}
			if panicked {
				stats["panicked"]++
			}
			if clientErr {
				stats["client-error"]++
			}
			cases = append(cases, C("CFront", grpc, panicked, clientErr, seen))
			raws = append(raws, desc)
		}
		// ---- HTTP ----
		for _, c := range httpCases(r) {
			stub.seen = nil
			req, err := http.NewRequest(c.method, base+c.path, strings.NewReader(c.body))
			if err != nil {
				continue
			}
			for k, v := range c.headers {
				req.Header.Set(k, v)
			}
			if c.body != "" {
				req.Header.Set("Content-Type", "application/json")
			}
			resp, err := client.Do(req)
			panicked, clientErr := false, false
			if err != nil {
				panicked = true // the handler panicked: net/http closed the connection without a reply
			} else {
				_, _ = io.Copy(io.Discard, resp.Body)
				resp.Body.Close()
				clientErr = resp.StatusCode >= 400 && resp.StatusCode < 500
				if resp.StatusCode >= 500 {
					stats["http-5xx"]++
				}
			}
			stats["http"]++
			record(false, c.method+" "+c.path+" "+c.body, panicked, clientErr)
		}
		// ---- gRPC handlers ----
		call := func(desc string, f func() error) {
			stub.seen = nil
			panicked, clientErr := false, false
			func() {
				defer func() {
					if e := recover(); e != nil {
						panicked = true
					}
				}()
				err := f()
				if err != nil {
					if st, ok := status.FromError(err); ok && (st.Code() == codes.InvalidArgument || st.Code() == codes.NotFound || st.Code() == codes.AlreadyExists || st.Code() == codes.PermissionDenied) {
						clientErr = true
					}
				}
			}()
			stats["grpc"]++
			record(true, desc, panicked, clientErr)
		}
		strs := []string{"", "x", "a/b", " "}
		i32 := []int32{0, 1, -1, 2147483647, -2147483648}
		i64 := []int64{0, 1, -1, 9223372036854775807, -9223372036854775808}
		recvs := []*pb.Recv{nil, {}, {Recv: &pb.Recv_Logical{Logical: "default"}}, {Recv: &pb.Recv_Logical{Logical: ""}}, {Recv: &pb.Recv_Physical{Physical: nil}}, {Recv: &pb.Recv_Physical{Physical: &pb.PhysicalRecv{Type: "poll", Data: nil}}}}
		vals := []*pb.Value{nil, {}, {Headers: map[string]string{"a": "b"}, Data: []byte("d")}}
		for k := 0; k < 5; k++ {
			ct := &pb.ClaimTaskRequest{Id: pick(r, strs), Counter: pick(r, i32), ProcessId: pick(r, strs), Ttl: pick(r, i32)}
			call(fmt.Sprintf("ClaimTask %v", ct), func() error { _, e := gs.ClaimTask(ctx, ct); return e })
			cpt := &pb.CompleteTaskRequest{Id: pick(r, strs), Counter: pick(r, i32)}
			call(fmt.Sprintf("CompleteTask %v", cpt), func() error { _, e := gs.CompleteTask(ctx, cpt); return e })
			ht := &pb.HeartbeatTasksRequest{ProcessId: pick(r, strs)}
			call(fmt.Sprintf("HeartbeatTasks %v", ht), func() error { _, e := gs.HeartbeatTasks(ctx, ht); return e })
			cc := &pb.CreateCallbackRequest{Id: pick(r, strs), PromiseId: pick(r, strs), RootPromiseId: pick(r, strs), Timeout: pick(r, i64), Recv: pick(r, recvs)}
			call(fmt.Sprintf("CreateCallback %v", cc), func() error { _, e := gs.CreateCallback(ctx, cc); return e })
			csb := &pb.CreateSubscriptionRequest{Id: pick(r, strs), PromiseId: pick(r, strs), Timeout: pick(r, i64), Recv: pick(r, recvs)}
			call(fmt.Sprintf("CreateSubscription %v", csb), func() error { _, e := gs.CreateSubscription(ctx, csb); return e })
			cp := &pb.CreatePromiseRequest{Id: pick(r, strs), IdempotencyKey: pick(r, strs), Strict: r.chance(0.5), Param: pick(r, vals), Timeout: pick(r, i64)}
			call(fmt.Sprintf("CreatePromise %v", cp), func() error { _, e := gs.CreatePromise(ctx, cp); return e })
			var cpp *pb.CreatePromiseRequest
			if r.chance(0.8) {
				cpp = &pb.CreatePromiseRequest{Id: pick(r, strs), Timeout: pick(r, i64)}
			}
			var cpk *pb.CreatePromiseTaskRequest
			if r.chance(0.8) {
				cpk = &pb.CreatePromiseTaskRequest{ProcessId: pick(r, strs), Ttl: pick(r, i32)}
			}
			cpat := &pb.CreatePromiseAndTaskRequest{Promise: cpp, Task: cpk}
			call(fmt.Sprintf("CreatePromiseAndTask %v", cpat), func() error { _, e := gs.CreatePromiseAndTask(ctx, cpat); return e })
			rp := &pb.ResolvePromiseRequest{Id: pick(r, strs), IdempotencyKey: pick(r, strs), Strict: r.chance(0.5), Value: pick(r, vals)}
			call(fmt.Sprintf("ResolvePromise %v", rp), func() error { _, e := gs.ResolvePromise(ctx, rp); return e })
			rj := &pb.RejectPromiseRequest{Id: pick(r, strs), Value: pick(r, vals)}
			call(fmt.Sprintf("RejectPromise %v", rj), func() error { _, e := gs.RejectPromise(ctx, rj); return e })
			cn := &pb.CancelPromiseRequest{Id: pick(r, strs), Value: pick(r, vals)}
			call(fmt.Sprintf("CancelPromise %v", cn), func() error { _, e := gs.CancelPromise(ctx, cn); return e })
			rd := &pb.ReadPromiseRequest{Id: pick(r, strs)}
			call(fmt.Sprintf("ReadPromise %v", rd), func() error { _, e := gs.ReadPromise(ctx, rd); return e })
			sp := &pb.SearchPromisesRequest{Id: pick(r, []string{"", "*", "a*"}), State: pb.SearchState(pick(r, []int32{0, 1, 2, 3, 7, -1})), Limit: pick(r, i32), Cursor: pick(r, append(forgedCursors(), "", ""))}
			call(fmt.Sprintf("SearchPromises %v", sp), func() error { _, e := gs.SearchPromises(ctx, sp); return e })
			al := &pb.AcquireLockRequest{ResourceId: pick(r, strs), ExecutionId: pick(r, strs), ProcessId: pick(r, strs), Ttl: pick(r, i64)}
			call(fmt.Sprintf("AcquireLock %v", al), func() error { _, e := gs.AcquireLock(ctx, al); return e })
			rl := &pb.ReleaseLockRequest{ResourceId: pick(r, strs), ExecutionId: pick(r, strs)}
			call(fmt.Sprintf("ReleaseLock %v", rl), func() error { _, e := gs.ReleaseLock(ctx, rl); return e })
			hl := &pb.HeartbeatLocksRequest{ProcessId: pick(r, strs)}
			call(fmt.Sprintf("HeartbeatLocks %v", hl), func() error { _, e := gs.HeartbeatLocks(ctx, hl); return e })
			sc := &pb.CreateScheduleRequest{Id: pick(r, strs), Cron: pick(r, []string{"", "x", "* * * * *", "@every 1s", "TZ=UTC", "CRON_TZ=Europe/Paris", "TZ=UTC * * * * *", "@every", "@", "TZ=UTC ", "CRON_TZ=UTC \n", "TZ= ", " TZ=UTC", "@daily\n", " * * * * * ", "TZ=UTC\t* * * * *", "TZ=UTC\t@daily", "TZ=UTC\n@hourly", "TZ=UTC\u00a0@daily"}), PromiseId: pick(r, strs), PromiseTimeout: pick(r, i64), PromiseParam: pick(r, vals)}
			call(fmt.Sprintf("CreateSchedule %v", sc), func() error { _, e := gs.CreateSchedule(ctx, sc); return e })
			ss := &pb.SearchSchedulesRequest{Id: pick(r, []string{"", "*"}), Limit: pick(r, i32), Cursor: pick(r, []string{"", "garbage"})}
			call(fmt.Sprintf("SearchSchedules %v", ss), func() error { _, e := gs.SearchSchedules(ctx, ss); return e })
			rs := &pb.ReadScheduleRequest{Id: pick(r, strs)}
			call(fmt.Sprintf("ReadSchedule %v", rs), func() error { _, e := gs.ReadSchedule(ctx, rs); return e })
			ds := &pb.DeleteScheduleRequest{Id: pick(r, strs)}
			call(fmt.Sprintf("DeleteSchedule %v", ds), func() error { _, e := gs.DeleteSchedule(ctx, ds); return e })
		}
		_ = bytes.MinRead
		if err := enc.Encode(map[string]any{"family": "front", "seed": sd, "cases": cases, "stats": stats, "raw": raws}); err != nil {
			panic(err)
		}
	}
}

func init() { extraCmds["front"] = cmdFront }
