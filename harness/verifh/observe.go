//go:build verif

package main

import (
	"time"
	"context"
	"database/sql"
	"errors"

	"github.com/resonatehq/resonate/internal/kernel/t_api"
	"github.com/resonatehq/resonate/pkg/idempotency"
	"github.com/resonatehq/resonate/pkg/lock"
	"github.com/resonatehq/resonate/pkg/promise"
	"github.com/resonatehq/resonate/pkg/schedule"
	"github.com/resonatehq/resonate/pkg/task"
)

func asErr(err error, e **t_api.Error) bool { return errors.As(err, e) }

// observer: a second connection to the same database file that dumps all five tables (rows in rowid order)
type observer struct{ db *sql.DB }

func newObserver(path string) (*observer, error) {
	db, err := sql.Open("sqlite3", path)
	if err != nil {
		return nil, err
	}
	return &observer{db: db}, nil
}

func (o *observer) close() { _ = o.db.Close() }

// holdRead opens a read transaction on a dedicated connection (a shared lock on the database file in rollback-journal
// mode) and returns the function that ends it
func (o *observer) holdRead() (func(), error) {
	ctx := context.Background()
	conn, err := o.db.Conn(ctx)
	if err != nil {
		return nil, err
	}
	if _, err := conn.ExecContext(ctx, "BEGIN"); err != nil {
		_ = conn.Close()
		return nil, err
	}
	var n int
	if err := conn.QueryRowContext(ctx, "SELECT count(*) FROM promises").Scan(&n); err != nil {
		_ = conn.Close()
		return nil, err
	}
	return func() {
		_, _ = conn.ExecContext(ctx, "ROLLBACK")
		_ = conn.Close()
	}, nil
}

// holdWrite takes the write lock of the database file on a dedicated connection (BEGIN IMMEDIATE) and returns the
// function that gives it back
func (o *observer) holdWrite() (func(), error) {
	ctx := context.Background()
	conn, err := o.db.Conn(ctx)
	if err != nil {
		return nil, err
	}
	if _, err := conn.ExecContext(ctx, "BEGIN IMMEDIATE"); err != nil {
		_ = conn.Close()
		return nil, err
	}
	return func() {
		_, _ = conn.ExecContext(ctx, "ROLLBACK")
		_ = conn.Close()
	}, nil
}

// quiesce returns once no connection holds any lock on the database file (an exclusive transaction can be opened):
// a transaction that database/sql rolls back on its own after a deadline releases its locks a moment after the
// store has already answered
func (o *observer) quiesce() {
	ctx := context.Background()
	conn, err := o.db.Conn(ctx)
	if err != nil {
		return
	}
	defer conn.Close()
	deadline := time.Now().Add(5 * time.Second)
	for time.Now().Before(deadline) {
		if _, err := conn.ExecContext(ctx, "BEGIN EXCLUSIVE"); err == nil {
			_, _ = conn.ExecContext(ctx, "ROLLBACK")
			return
		}
		time.Sleep(5 * time.Millisecond)
	}
}

type snapshot struct {
	promises  []*promise.PromiseRecord
	callbacks []cbRow
	schedules []*schedule.ScheduleRecord
	locks     []*lock.LockRecord
	tasks     []taskRow
}

type cbRow struct {
	id, pid, root string
	recv, mesg    []byte
	timeout       int64
	created       int64
}
type taskRow struct {
	rec  *task.TaskRecord
	sort int64
}

func (o *observer) snap() (*snapshot, error) {
	s := &snapshot{}
	rows, err := o.db.Query(`SELECT id, sort_id, state, param_headers, param_data, value_headers, value_data, timeout, idempotency_key_for_create, idempotency_key_for_complete, tags, created_on, completed_on FROM promises ORDER BY sort_id`)
	if err != nil {
		return nil, err
	}
	for rows.Next() {
		r := &promise.PromiseRecord{}
		var ikc, iku *string
		if err := rows.Scan(&r.Id, &r.SortId, &r.State, &r.ParamHeaders, &r.ParamData, &r.ValueHeaders, &r.ValueData, &r.Timeout, &ikc, &iku, &r.Tags, &r.CreatedOn, &r.CompletedOn); err != nil {
			rows.Close()
			return nil, err
		}
		if ikc != nil {
			k := idempotency.Key(*ikc)
			r.IdempotencyKeyForCreate = &k
		}
		if iku != nil {
			k := idempotency.Key(*iku)
			r.IdempotencyKeyForComplete = &k
		}
		s.promises = append(s.promises, r)
	}
	rows.Close()

	rows, err = o.db.Query(`SELECT id, promise_id, root_promise_id, recv, mesg, timeout, created_on FROM callbacks ORDER BY rowid`)
	if err != nil {
		return nil, err
	}
	for rows.Next() {
		var c cbRow
		if err := rows.Scan(&c.id, &c.pid, &c.root, &c.recv, &c.mesg, &c.timeout, &c.created); err != nil {
			rows.Close()
			return nil, err
		}
		s.callbacks = append(s.callbacks, c)
	}
	rows.Close()

	rows, err = o.db.Query(`SELECT id, sort_id, description, cron, tags, promise_id, promise_timeout, promise_param_headers, promise_param_data, promise_tags, last_run_time, next_run_time, idempotency_key, created_on FROM schedules ORDER BY sort_id`)
	if err != nil {
		return nil, err
	}
	for rows.Next() {
		r := &schedule.ScheduleRecord{}
		var ik *string
		if err := rows.Scan(&r.Id, &r.SortId, &r.Description, &r.Cron, &r.Tags, &r.PromiseId, &r.PromiseTimeout, &r.PromiseParamHeaders, &r.PromiseParamData, &r.PromiseTags, &r.LastRunTime, &r.NextRunTime, &ik, &r.CreatedOn); err != nil {
			rows.Close()
			return nil, err
		}
		if ik != nil {
			k := idempotency.Key(*ik)
			r.IdempotencyKey = &k
		}
		s.schedules = append(s.schedules, r)
	}
	rows.Close()

	rows, err = o.db.Query(`SELECT resource_id, execution_id, process_id, ttl, expires_at FROM locks ORDER BY rowid`)
	if err != nil {
		return nil, err
	}
	for rows.Next() {
		r := &lock.LockRecord{}
		var exp any
		if err := rows.Scan(&r.ResourceId, &r.ExecutionId, &r.ProcessId, &r.Ttl, &exp); err != nil {
			rows.Close()
			return nil, err
		}
		r.ExpiresAt = anyInt(exp)
		s.locks = append(s.locks, r)
	}
	rows.Close()

	rows, err = o.db.Query(`SELECT id, sort_id, process_id, state, root_promise_id, recv, mesg, timeout, counter, attempt, ttl, expires_at, created_on, completed_on FROM tasks ORDER BY sort_id`)
	if err != nil {
		return nil, err
	}
	for rows.Next() {
		r := &task.TaskRecord{}
		var sort int64
		if err := rows.Scan(&r.Id, &sort, &r.ProcessId, &r.State, &r.RootPromiseId, &r.Recv, &r.Mesg, &r.Timeout, &r.Counter, &r.Attempt, &r.Ttl, &r.ExpiresAt, &r.CreatedOn, &r.CompletedOn); err != nil {
			rows.Close()
			return nil, err
		}
		s.tasks = append(s.tasks, taskRow{rec: r, sort: sort})
	}
	rows.Close()
	return s, nil
}

// SQLite turns an overflowing integer addition into a REAL; saturate when reading it back
func anyInt(v any) int64 {
	switch x := v.(type) {
	case int64:
		return x
	case float64:
		if x >= 9.2e18 {
			return 9223372036854775807
		}
		if x <= -9.2e18 {
			return -9223372036854775808
		}
		return int64(x)
	}
	return 0
}

func (s *snapshot) term() term {
	ps := []term{}
	for _, r := range s.promises {
		ps = append(ps, PromiseRec(r))
	}
	cs := []term{}
	for _, c := range s.callbacks {
		cs = append(cs, C("mkCb", S(c.id), S(c.pid), S(c.root), B(c.recv), MesgJ(c.mesg), c.timeout, c.created))
	}
	ss := []term{}
	for _, r := range s.schedules {
		ss = append(ss, ScheduleRec(r))
	}
	ls := []term{}
	for _, r := range s.locks {
		ls = append(ls, LockRec(r))
	}
	ts := []term{}
	for _, t := range s.tasks {
		r := t.rec
		ts = append(ts, C("mkT", S(r.Id), t.sort, OptS(r.ProcessId), int64(r.State), S(r.RootPromiseId), B(r.Recv), MesgJ(r.Mesg), r.Timeout,
			int64(r.Counter), int64(r.Attempt), int64(r.Ttl), r.ExpiresAt, I0(r.CreatedOn), OptI(r.CompletedOn)))
	}
	return C("mkDb", L(ps...), L(cs...), L(ss...), L(ls...), L(ts...), 0, 0, 0)
}
