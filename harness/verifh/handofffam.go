//go:build verif

package main

// Family "handoff" (C19 / C08 / C12): the whole hand-off path as it runs in the server - the production aio, the Sender
// subsystem with its queue and worker goroutine, the http plugin with its queue and worker goroutine - and loopback
// receivers that record what they are sent.  Bursts of submissions are dispatched, then collected; every submission
// must complete exactly once, report success exactly when its receiver answered 200, and the request a receiver saw
// must carry that very task (id, counter, links).  coq/Model/Plug.v (hcase) states what is expected.

import (
	"bufio"
	"encoding/json"
	"flag"
	"fmt"
	"io"
	"net"
	"net/http"
	"net/http/httptest"
	"os"
	"sync"
	"time"

	"github.com/prometheus/client_golang/prometheus"
	"github.com/resonatehq/resonate/internal/aio"
	httpPlugin "github.com/resonatehq/resonate/internal/app/plugins/http"
	"github.com/resonatehq/resonate/internal/app/subsystems/aio/sender"
	"github.com/resonatehq/resonate/internal/kernel/t_aio"
	"github.com/resonatehq/resonate/internal/metrics"
	"github.com/resonatehq/resonate/pkg/message"
	"github.com/resonatehq/resonate/pkg/receiver"
	"github.com/resonatehq/resonate/pkg/task"
)

func cmdHandoff(args []string) {
	fs := flag.NewFlagSet("handoff", flag.ExitOnError)
	seed := fs.Uint64("seed", 1, "base seed")
	n := fs.Int("n", 10, "number of case groups")
	out := fs.String("out", "-", "output file (JSON lines)")
	_ = fs.Int("workers", 1, "ignored")
	exact := fs.Uint64("seed-exact", 0, "run exactly this group seed (replay)")
	_ = fs.Parse(args)
	w := os.Stdout
	if *out != "-" {
		fh, err := os.Create(*out)
		if err != nil {
			panic(err)
		}
		defer fh.Close()
		w = fh
	}
	bw := bufio.NewWriterSize(w, 1<<20)
	defer bw.Flush()
	enc := json.NewEncoder(bw)

	// receivers: /ok/<key> answers 200, /err/<key> answers 500; both record the body under <key>
	var mu sync.Mutex
	seen := map[string][]string{}
	mux := http.NewServeMux()
	rec := func(code int) http.HandlerFunc {
		return func(rw http.ResponseWriter, r *http.Request) {
			b, _ := io.ReadAll(r.Body)
			mu.Lock()
			seen[r.URL.Path] = append(seen[r.URL.Path], string(b))
			mu.Unlock()
			rw.WriteHeader(code)
		}
	}
	mux.HandleFunc("/ok/", rec(200))
	mux.HandleFunc("/err/", rec(500))
	srv := httptest.NewServer(mux)
	defer srv.Close()
	l, err := net.Listen("tcp", "127.0.0.1:0")
	if err != nil {
		panic(err)
	}
	dead := l.Addr().String()
	l.Close()

	for i := 0; i < *n; i++ {
		sd := *seed*1000003 + uint64(i)
		if *exact != 0 {
			sd = *exact
		}
		r := &rng{s: sd}
		m := metrics.New(prometheus.NewRegistry())
		a := aio.New(100, m)
		cfg := &sender.Config{Size: 100}
		cfg.Plugins.Http.Enabled = true
		cfg.Plugins.Http.Config = httpPlugin.Config{Size: 100, Workers: 1, Timeout: 2 * time.Second}
		cfg.Plugins.Poll.Enabled = false
		sn, err := sender.New(a, m, cfg)
		if err != nil {
			panic(err)
		}
		a.AddSubsystem(sn)
		if err := a.Start(); err != nil {
			panic(err)
		}
		cases := []term{}
		raws := []string{}
		stats := map[string]int{}
		for burst := 0; burst < 3; burst++ {
			k := 2 + r.intn(5)
			type sub struct {
				cls      int64
				path     string
				want     term
				n        int
				success  bool
				id       string
				counter  int
			}
			subs := make([]*sub, k)
			for j := 0; j < k; j++ {
				s := &sub{id: pick(r, []string{"ta", "tb", "tc", "t-long-id", "u"}), counter: 1 + r.intn(9)}
				key := fmt.Sprintf("g%d.b%d.s%d", i, burst, j)
				var url string
				switch x := r.intn(10); {
				case x < 6:
					s.cls, s.path = 0, "/ok/"+key
					url = srv.URL + s.path
				case x < 8:
					s.cls, s.path = 1, "/err/"+key
					url = srv.URL + s.path
				default:
					s.cls = 2
					url = pick(r, []string{"http://" + dead + "/x", "ftp://worker.invalid/x", ""})
				}
				data, _ := json.Marshal(map[string]string{"url": url})
				recvBytes, _ := json.Marshal(&receiver.Recv{Type: "http", Data: data})
				tk := &task.Task{Id: s.id, Counter: s.counter, Recv: recvBytes, Mesg: &message.Mesg{Type: message.Invoke, Root: "r", Leaf: "l"}}
				s.want = C("BTask", S("invoke"), S(tk.Id), tk.Counter, S("c/"+key), S("k/"+key), S("h/"+key))
				subs[j] = s
				a.Dispatch(&t_aio.Submission{Kind: t_aio.Sender, Tags: map[string]string{"id": key},
					Sender: &t_aio.SenderSubmission{Task: tk, ClaimHref: "c/" + key, CompleteHref: "k/" + key, HeartbeatHref: "h/" + key}},
					func(c *t_aio.Completion, err error) {
						s.n++
						s.success = err == nil && c != nil && c.Sender != nil && c.Sender.Success
					})
			}
			deadline := time.Now().Add(5 * time.Second)
			for time.Now().Before(deadline) {
				for _, cqe := range a.DequeueCQE(4) {
					cqe.Callback(cqe.Completion, cqe.Error)
				}
				p := 0
				for _, s := range subs {
					if s.n == 0 {
						p++
					}
				}
				if p == 0 {
					break
				}
				time.Sleep(300 * time.Microsecond)
			}
			time.Sleep(2 * time.Millisecond)
			for _, cqe := range a.DequeueCQE(100) {
				cqe.Callback(cqe.Completion, cqe.Error)
			}
			for _, s := range subs {
				mu.Lock()
				bodies := seen[s.path]
				mu.Unlock()
				saw := false
				if s.path != "" && len(bodies) > 0 {
					saw = fmt.Sprint(decodeBody([]byte(bodies[0]))) == fmt.Sprint(s.want)
				}
				hits := len(bodies)
				if s.path == "" {
					hits = 0
				}
				cases = append(cases, C("CHand", s.cls, N(s.n), s.success, saw, N(hits)))
				raws = append(raws, fmt.Sprintf("task %s/%d to a class-%d http receiver: %d completions, success=%v, receiver saw this task=%v (%d requests)", s.id, s.counter, s.cls, s.n, s.success, saw, hits))
				stats[fmt.Sprintf("class%d", s.cls)]++
			}
		}
		_ = a.Stop()
		if err := enc.Encode(map[string]any{"family": "handoff", "seed": sd, "cases": cases, "stats": stats, "raw": raws}); err != nil {
			panic(err)
		}
	}
}

func init() { extraCmds["handoff"] = cmdHandoff }
