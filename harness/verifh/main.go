//go:build verif

// verifh: the correspondence harness of /verif (see DESIGN.md §4).  Built with
//   go build -tags verif -overlay <overlay.json> ./internal/verifh
// from /repo's working tree; never part of the normal build.
package main

import (
	"bufio"
	"encoding/json"
	"flag"
	"fmt"
	"log/slog"
	"os"
	"sync"
)

func main() {
	if len(os.Args) < 2 {
		fmt.Fprintln(os.Stderr, "usage: verifh <sys|store|...> [flags]")
		os.Exit(2)
	}
	slog.SetDefault(slog.New(slog.NewTextHandler(nullWriter{}, nil)))
	switch os.Args[1] {
	case "sys":
		cmdSys(os.Args[2:])
	case "store":
		cmdStore(os.Args[2:])
	default:
		if f, ok := extraCmds[os.Args[1]]; ok {
			f(os.Args[2:])
			return
		}
		fmt.Fprintln(os.Stderr, "unknown command", os.Args[1])
		os.Exit(2)
	}
}

var extraCmds = map[string]func([]string){}

type nullWriter struct{}

func (nullWriter) Write(p []byte) (int, error) { return len(p), nil }

func cmdSys(args []string) {
	fs := flag.NewFlagSet("sys", flag.ExitOnError)
	fam := fs.String("family", "locks", "scenario family")
	seed := fs.Uint64("seed", 1, "base seed")
	n := fs.Int("n", 10, "number of traces")
	out := fs.String("out", "-", "output file (JSON lines)")
	dir := fs.String("dir", "/dev/shm", "scratch directory for database files")
	workers := fs.Int("workers", 8, "parallel traces")
	exact := fs.Uint64("seed-exact", 0, "run exactly this trace seed (replay)")
	_ = fs.Parse(args)
	f, ok := families[*fam]
	if !ok {
		fmt.Fprintln(os.Stderr, "unknown family", *fam)
		os.Exit(2)
	}
	w := os.Stdout
	if *out != "-" {
		fh, err := os.Create(*out)
		if err != nil {
			panic(err)
		}
		defer fh.Close()
		w = fh
	}
	bw := bufio.NewWriterSize(w, 1<<20)
	defer bw.Flush()
	traces := make([]*trace, *n)
	var wg sync.WaitGroup
	sem := make(chan struct{}, *workers)
	for i := 0; i < *n; i++ {
		wg.Add(1)
		sem <- struct{}{}
		go func(i int) {
			defer wg.Done()
			defer func() { <-sem }()
			sd := *seed*1000003 + uint64(i)
			if *exact != 0 {
				sd = *exact
			}
			traces[i] = runTrace(f, sd, *dir)
		}(i)
	}
	wg.Wait()
	enc := json.NewEncoder(bw)
	for _, t := range traces {
		if err := enc.Encode(t); err != nil {
			panic(err)
		}
	}
}
