//go:build verif

package main

// Family "asserts" (C13): kernel-level requests with hostile field values, each run through the production
// coroutine in a CHILD process (an assertion in a coroutine is a panic in its own goroutine: the process dies).
// coq/Model/Valid.v says which requests the coroutines assert on (req_asserts); the child's fate must agree.

import (
	"bufio"
	"encoding/json"
	"flag"
	"fmt"
	"os"
	"os/exec"

	"github.com/prometheus/client_golang/prometheus"
	"github.com/resonatehq/resonate/internal/api"
	"github.com/resonatehq/resonate/internal/app/coroutines"
	"github.com/resonatehq/resonate/internal/kernel/bus"
	"github.com/resonatehq/resonate/internal/kernel/system"
	"github.com/resonatehq/resonate/internal/kernel/t_api"
	"github.com/resonatehq/resonate/internal/metrics"
	"github.com/resonatehq/resonate/pkg/promise"
)

// child: run one request for one tick
func cmdAssert1(args []string) {
	var req t_api.Request
	if err := json.Unmarshal([]byte(args[0]), &req); err != nil {
		fmt.Fprintln(os.Stderr, "bad request", err)
		os.Exit(3)
	}
	req.Tags = map[string]string{"id": "x", "name": "x"}
	m := metrics.New(prometheus.NewRegistry())
	a := api.New(10, m)
	v := newVaio()
	s := system.New(a, v, &system.Config{CoroutineMaxSize: 10, SubmissionBatchSize: 10, CompletionBatchSize: 10, SignalTimeout: 1}, m)
	s.AddOnRequest(t_api.ReadPromise, coroutines.ReadPromise)
	s.AddOnRequest(t_api.SearchPromises, coroutines.SearchPromises)
	s.AddOnRequest(t_api.CreatePromise, coroutines.CreatePromise)
	s.AddOnRequest(t_api.CreatePromiseAndTask, coroutines.CreatePromiseAndTask)
	s.AddOnRequest(t_api.CompletePromise, coroutines.CompletePromise)
	s.AddOnRequest(t_api.CreateCallback, coroutines.CreateCallback)
	s.AddOnRequest(t_api.CreateSubscription, coroutines.CreateSubscription)
	s.AddOnRequest(t_api.ReadSchedule, coroutines.ReadSchedule)
	s.AddOnRequest(t_api.SearchSchedules, coroutines.SearchSchedules)
	s.AddOnRequest(t_api.CreateSchedule, coroutines.CreateSchedule)
	s.AddOnRequest(t_api.DeleteSchedule, coroutines.DeleteSchedule)
	s.AddOnRequest(t_api.AcquireLock, coroutines.AcquireLock)
	s.AddOnRequest(t_api.ReleaseLock, coroutines.ReleaseLock)
	s.AddOnRequest(t_api.HeartbeatLocks, coroutines.HeartbeatLocks)
	s.AddOnRequest(t_api.ClaimTask, coroutines.ClaimTask)
	s.AddOnRequest(t_api.CompleteTask, coroutines.CompleteTask)
	s.AddOnRequest(t_api.HeartbeatTasks, coroutines.HeartbeatTasks)
	a.EnqueueSQE(&bus.SQE[t_api.Request, t_api.Response]{Id: "x", Submission: &req, Callback: func(*t_api.Response, error) {}})
	s.Tick(1)
	os.Exit(0)
}

func cmdAsserts(args []string) {
	fs := flag.NewFlagSet("asserts", flag.ExitOnError)
	seed := fs.Uint64("seed", 1, "base seed")
	n := fs.Int("n", 10, "number of case groups")
	out := fs.String("out", "-", "output file (JSON lines)")
	_ = fs.Int("workers", 1, "ignored")
	exact := fs.Uint64("seed-exact", 0, "run exactly this group seed (replay)")
	_ = fs.Parse(args)
	w := os.Stdout
	if *out != "-" {
		fh, err := os.Create(*out)
		if err != nil {
			panic(err)
		}
		defer fh.Close()
		w = fh
	}
	bw := bufio.NewWriterSize(w, 1<<20)
	defer bw.Flush()
	enc := json.NewEncoder(bw)
	for i := 0; i < *n; i++ {
		sd := *seed*1000003 + uint64(i)
		if *exact != 0 {
			sd = *exact
		}
		r := &rng{s: sd}
		cases := []term{}
		stats := map[string]int{}
		strs := []string{"", "x", " ", "a/b"}
		ints := []int{0, 1, -1, 100, 101, -2147483648}
		for k := 0; k < 8; k++ {
			var req *t_api.Request
			switch r.intn(8) {
			case 0, 1:
				req = &t_api.Request{Kind: t_api.ClaimTask, ClaimTask: &t_api.ClaimTaskRequest{Id: pick(r, strs), Counter: pick(r, ints), ProcessId: pick(r, strs), Ttl: pick(r, ints)}}
			case 2, 3:
				req = &t_api.Request{Kind: t_api.SearchPromises, SearchPromises: &t_api.SearchPromisesRequest{Id: pick(r, []string{"", "*", "a*"}), States: []promise.State{promise.Pending}, Tags: map[string]string{}, Limit: pick(r, ints)}}
			case 4:
				req = &t_api.Request{Kind: t_api.SearchSchedules, SearchSchedules: &t_api.SearchSchedulesRequest{Id: pick(r, []string{"", "*"}), Tags: map[string]string{}, Limit: pick(r, ints)}}
			case 5:
				req = &t_api.Request{Kind: t_api.AcquireLock, AcquireLock: &t_api.AcquireLockRequest{ResourceId: pick(r, strs), ExecutionId: pick(r, strs), ProcessId: pick(r, strs), Ttl: int64(pick(r, ints))}}
			case 6:
				req = &t_api.Request{Kind: t_api.CompletePromise, CompletePromise: &t_api.CompletePromiseRequest{Id: pick(r, strs), State: pick(r, []promise.State{promise.Resolved, promise.Rejected, promise.Canceled})}}
			default:
				req = &t_api.Request{Kind: t_api.CreateCallback, CreateCallback: &t_api.CreateCallbackRequest{PromiseId: pick(r, strs), RootPromiseId: pick(r, strs), Timeout: int64(pick(r, ints)), Recv: pick(r, []json.RawMessage{nil, json.RawMessage(`null`), json.RawMessage(`"d"`)})}}
			}
			b, _ := json.Marshal(req)
			cmd := exec.Command(os.Args[0], "assert1", string(b))
			err := cmd.Run()
			died := err != nil
			cases = append(cases, C("CAssert", RequestT(req), died))
			stats["run"]++
			if died {
				stats["died"]++
			}
		}
		if err := enc.Encode(map[string]any{"family": "asserts", "seed": sd, "cases": cases, "stats": stats}); err != nil {
			panic(err)
		}
	}
}

func init() {
	extraCmds["asserts"] = cmdAsserts
	extraCmds["assert1"] = cmdAssert1
}
