//go:build verif

package main

// Family "plumb" (C16 / C12): the plumbing between the kernel thread and the store - the production aio (Dispatch,
// Flush, DequeueCQE) with the production SQLite store behind it as it runs in the server: its worker goroutine, its
// submission queue, store.Collect's batching and store.Process's mapping of results to completions.  Rounds of
// submissions (commands that cannot fail, so that batch boundaries cannot show) are dispatched in order, flushed and
// collected; every submission must complete exactly once and its results must be the ones the store model gives when
// the transactions run one after the other in dispatch order.  Replayed by store_mismatches (one event per round).

import (
	"bufio"
	"encoding/json"
	"flag"
	"fmt"
	"os"
	"path/filepath"
	"sync"
	"time"

	"github.com/prometheus/client_golang/prometheus"
	"github.com/resonatehq/resonate/internal/aio"
	"github.com/resonatehq/resonate/internal/app/subsystems/aio/store/sqlite"
	"github.com/resonatehq/resonate/internal/kernel/t_aio"
	"github.com/resonatehq/resonate/internal/metrics"
)

func safeCommand(r *rng, stat map[string]int) *t_aio.Command {
	for {
		c := conflictCommand(r, stat)
		switch c.Kind {
		case t_aio.CreatePromise, t_aio.UpdatePromise, t_aio.ReadPromise, t_aio.AcquireLock, t_aio.ReleaseLock, t_aio.HeartbeatLocks,
			t_aio.ReadLock, t_aio.TimeoutLocks, t_aio.CreateCallback, t_aio.DeleteCallbacks, t_aio.CreateTask, t_aio.ReadTask, t_aio.UpdateTask,
			t_aio.HeartbeatTasks, t_aio.CompleteTasks, t_aio.CreateSchedule, t_aio.ReadSchedule, t_aio.UpdateSchedule, t_aio.DeleteSchedule:
			return c
		}
	}
}

func runPlumbTrace(seed uint64, dir string) (tr *storeTrace) {
	r := &rng{s: seed}
	tr = &storeTrace{Family: "plumb", Seed: seed, Stats: map[string]int{}}
	path := filepath.Join(dir, fmt.Sprintf("pl%d.db", seed))
	_ = os.Remove(path)
	defer func() {
		if e := recover(); e != nil {
			tr.Error = fmt.Sprintf("harness panic: %v", e)
		}
		_ = os.Remove(path)
		_ = os.Remove(path + "-journal")
	}()
	m := metrics.New(prometheus.NewRegistry())
	a := aio.New(200, m)
	st, err := sqlite.New(a, m, &sqlite.Config{Size: 200, BatchSize: 1 + r.intn(5), Path: path, TxTimeout: 10 * time.Second})
	if err != nil {
		tr.Error = err.Error()
		return tr
	}
	a.AddSubsystem(st)
	if err := a.Start(); err != nil {
		tr.Error = err.Error()
		return tr
	}
	defer func() { _ = a.Stop() }()
	ob, err := newObserver(path)
	if err != nil {
		tr.Error = err.Error()
		return tr
	}
	defer ob.close()
	for round := 0; round < 8; round++ {
		k := 1 + r.intn(9)
		type ans struct {
			n   int
			res []*t_aio.Result
			err error
		}
		answers := make([]ans, k)
		txns := []term{}
		for i := 0; i < k; i++ {
			ncmd := 1 + r.intn(3)
			cmds := []*t_aio.Command{}
			for j := 0; j < ncmd; j++ {
				cmds = append(cmds, safeCommand(r, tr.Stats))
			}
			tx := &t_aio.Transaction{Commands: cmds}
			txns = append(txns, TxnT(tx))
			i := i
			a.Dispatch(&t_aio.Submission{Kind: t_aio.Store, Tags: map[string]string{"id": fmt.Sprintf("s%d.%d", round, i)}, Store: &t_aio.StoreSubmission{Transaction: tx}},
				func(c *t_aio.Completion, err error) {
					answers[i].n++
					answers[i].err = err
					if c != nil && c.Store != nil {
						answers[i].res = c.Store.Results
					}
				})
			if r.chance(0.3) {
				a.Flush(int64(round))
			}
		}
		// collect until everything dispatched in this round has been answered
		deadline := time.Now().Add(5 * time.Second)
		pending := func() int {
			p := 0
			for i := range answers {
				if answers[i].n == 0 {
					p++
				}
			}
			return p
		}
		for pending() > 0 && time.Now().Before(deadline) {
			a.Flush(int64(round))
			for _, cqe := range a.DequeueCQE(1 + r.intn(6)) {
				cqe.Callback(cqe.Completion, cqe.Error)
			}
			time.Sleep(200 * time.Microsecond)
		}
		// a little longer: nothing may be answered twice
		time.Sleep(2 * time.Millisecond)
		for _, cqe := range a.DequeueCQE(100) {
			cqe.Callback(cqe.Completion, cqe.Error)
		}
		var results term
		all := []term{}
		ok := true
		for i := range answers {
			if answers[i].n != 1 || answers[i].err != nil || answers[i].res == nil {
				ok = false
				tr.Stats[fmt.Sprintf("answered-%d-times", answers[i].n)]++
				continue
			}
			all = append(all, ResultsT(answers[i].res))
		}
		if ok {
			results = Some(L(all...))
			tr.Stats["round:ok"]++
		} else {
			tr.Stats["round:bad"]++
		}
		snap, err := ob.snap()
		if err != nil {
			tr.Error = err.Error()
			return tr
		}
		items := []term{}
		for i := range txns {
			items = append(items, C("tx", txns[i], L()))
		}
		tr.Events = append(tr.Events, event{D: L(items...), O: []term{C("OExec", L(txns...), results, snap.term())}})
	}
	return tr
}

func cmdPlumb(args []string) {
	fs := flag.NewFlagSet("plumb", flag.ExitOnError)
	seed := fs.Uint64("seed", 1, "base seed")
	n := fs.Int("n", 10, "number of traces")
	out := fs.String("out", "-", "output file (JSON lines)")
	dir := fs.String("dir", "/dev/shm", "scratch directory")
	workers := fs.Int("workers", 8, "parallel traces")
	exact := fs.Uint64("seed-exact", 0, "run exactly this trace seed (replay)")
	_ = fs.Parse(args)
	w := os.Stdout
	if *out != "-" {
		fh, err := os.Create(*out)
		if err != nil {
			panic(err)
		}
		defer fh.Close()
		w = fh
	}
	bw := bufio.NewWriterSize(w, 1<<20)
	defer bw.Flush()
	traces := make([]*storeTrace, *n)
	var wg sync.WaitGroup
	sem := make(chan struct{}, *workers)
	for i := 0; i < *n; i++ {
		wg.Add(1)
		sem <- struct{}{}
		go func(i int) {
			defer wg.Done()
			defer func() { <-sem }()
			sd := *seed*1000003 + uint64(i)
			if *exact != 0 {
				sd = *exact
			}
			traces[i] = runPlumbTrace(sd, *dir)
		}(i)
	}
	wg.Wait()
	enc := json.NewEncoder(bw)
	for _, t := range traces {
		if err := enc.Encode(t); err != nil {
			panic(err)
		}
	}
}

func init() { extraCmds["plumb"] = cmdPlumb }
