//go:build verif

package main

// Family "stack" (C02): the whole kernel stack as it is assembled in the server - the production api queue,
// System.Tick, the gocoro scheduler and all request coroutines, the production aio with the production SQLite store
// (queue, worker goroutine, batching) and router behind it - driven by ONE client that sends its next request only
// after the answer to the previous one.  With one request in flight there is exactly one legal history: every answer
// must be the one the coroutine model gives when it runs alone on the current tables (the sequential specification of
// C02), and the tables move as that run moves them.  The clock is the argument of Tick, chosen by the harness.

import (
	"bufio"
	"encoding/json"
	"flag"
	"fmt"
	"os"
	"path/filepath"
	"sync"
	"time"

	"github.com/prometheus/client_golang/prometheus"
	"github.com/resonatehq/resonate/internal/aio"
	"github.com/resonatehq/resonate/internal/api"
	"github.com/resonatehq/resonate/internal/app/coroutines"
	"github.com/resonatehq/resonate/internal/app/subsystems/aio/router"
	"github.com/resonatehq/resonate/internal/app/subsystems/aio/store/sqlite"
	"github.com/resonatehq/resonate/internal/kernel/bus"
	"github.com/resonatehq/resonate/internal/kernel/system"
	"github.com/resonatehq/resonate/internal/kernel/t_api"
	"github.com/resonatehq/resonate/internal/metrics"
)

func runStackGroup(seed uint64, dir string) map[string]any {
	r := &rng{s: seed}
	path := filepath.Join(dir, fmt.Sprintf("st%d.db", seed))
	_ = os.Remove(path)
	defer func() { _ = os.Remove(path); _ = os.Remove(path + "-journal") }()
	stats := map[string]int{}
	fail := func(err error) map[string]any {
		return map[string]any{"family": "stack", "seed": seed, "cases": []term{}, "stats": stats, "error": err.Error()}
	}
	m := metrics.New(prometheus.NewRegistry())
	ap := api.New(100, m)
	real := aio.New(1000, m)
	st, err := sqlite.New(real, m, &sqlite.Config{Size: 1000, BatchSize: 1 + r.intn(4), Path: path, TxTimeout: 10 * time.Second})
	if err != nil {
		return fail(err)
	}
	rt, err := router.New(real, m, &router.Config{Size: 100, Workers: 1})
	if err != nil {
		return fail(err)
	}
	real.AddSubsystem(st)
	real.AddSubsystem(rt)
	if err := real.Start(); err != nil {
		return fail(err)
	}
	defer func() { _ = real.Stop() }()
	cfg := baseConfig(r)
	sys := system.New(ap, real, cfg, m)
	sys.AddOnRequest(t_api.ReadPromise, coroutines.ReadPromise)
	sys.AddOnRequest(t_api.CreatePromise, coroutines.CreatePromise)
	sys.AddOnRequest(t_api.CreatePromiseAndTask, coroutines.CreatePromiseAndTask)
	sys.AddOnRequest(t_api.CompletePromise, coroutines.CompletePromise)
	sys.AddOnRequest(t_api.CreateCallback, coroutines.CreateCallback)
	sys.AddOnRequest(t_api.CreateSubscription, coroutines.CreateSubscription)
	sys.AddOnRequest(t_api.AcquireLock, coroutines.AcquireLock)
	sys.AddOnRequest(t_api.ReleaseLock, coroutines.ReleaseLock)
	sys.AddOnRequest(t_api.HeartbeatLocks, coroutines.HeartbeatLocks)
	sys.AddOnRequest(t_api.ClaimTask, coroutines.ClaimTask)
	sys.AddOnRequest(t_api.CompleteTask, coroutines.CompleteTask)
	sys.AddOnRequest(t_api.HeartbeatTasks, coroutines.HeartbeatTasks)
	ob, err := newObserver(path)
	if err != nil {
		return fail(err)
	}
	defer ob.close()

	w := &world{r: r, now: 10, mem: map[string]any{}}
	gens := []func(*world) *t_api.Request{families["promises"].gen, families["promises"].gen, families["tasks"].gen, families["locks"].gen}
	cases := []term{}
	raws := []string{}
	for k := 0; k < 30; k++ {
		w.now += int64(pick(r, []int{0, 1, 1, 2, 3, 5}))
		var req *t_api.Request
		for {
			req = pick(r, gens)(w)
			// one client, no searches (a search that has to time promises out first fans out), no schedules (cron oracle)
			if req.Kind == t_api.SearchPromises || req.Kind == t_api.SearchSchedules || req.Kind == t_api.CreateSchedule ||
				req.Kind == t_api.ReadSchedule || req.Kind == t_api.DeleteSchedule {
				continue
			}
			break
		}
		// the router's verdict is property C19's business: here nothing is routed
		if req.Kind == t_api.CreatePromise && req.CreatePromise.Tags != nil {
			delete(req.CreatePromise.Tags, "resonate:invoke")
		}
		if req.Kind == t_api.CreatePromiseAndTask && req.CreatePromiseAndTask.Promise.Tags != nil {
			delete(req.CreatePromiseAndTask.Promise.Tags, "resonate:invoke")
		}
		req.Tags = map[string]string{"id": fmt.Sprintf("c%d", k)}
		qT := RequestT(req)
		answers := 0
		var rsp term
		ap.EnqueueSQE(&bus.SQE[t_api.Request, t_api.Response]{Id: req.Tags["id"], Submission: req, Callback: func(res *t_api.Response, err error) {
			answers++
			rsp = ResponseT(res, err)
		}})
		deadline := time.Now().Add(5 * time.Second)
		for answers == 0 && time.Now().Before(deadline) {
			sys.Tick(w.now)
			real.Flush(w.now)
			time.Sleep(50 * time.Microsecond)
		}
		// a few more ticks: nothing may be answered twice, nothing may still be running
		for j := 0; j < 3; j++ {
			sys.Tick(w.now)
			real.Flush(w.now)
			time.Sleep(50 * time.Microsecond)
		}
		if answers != 1 {
			rsp = C("RspPanic")
			stats[fmt.Sprintf("answered-%d-times", answers)]++
		}
		cases = append(cases, C("CStack", qT, w.now, rsp))
		raws = append(raws, fmt.Sprintf("request %d at clock %d: %s", k, w.now, req.Kind.String()))
		stats[req.Kind.String()]++
		if snap, err := ob.snap(); err == nil {
			w.snap = snap
		}
	}
	return map[string]any{"family": "stack", "seed": seed, "cases": cases, "stats": stats, "raw": raws,
		"cfg": map[string]any{"url": cfg.Url, "pbatch": cfg.PromiseBatchSize, "sbatch": cfg.ScheduleBatchSize, "tbatch": cfg.TaskBatchSize,
			"enq_delay": cfg.TaskEnqueueDelay.Milliseconds(), "fifo": true}}
}

func cmdStack(args []string) {
	fs := flag.NewFlagSet("stack", flag.ExitOnError)
	seed := fs.Uint64("seed", 1, "base seed")
	n := fs.Int("n", 10, "number of case groups")
	out := fs.String("out", "-", "output file (JSON lines)")
	dir := fs.String("dir", "/dev/shm", "scratch directory")
	workers := fs.Int("workers", 8, "parallel groups")
	exact := fs.Uint64("seed-exact", 0, "run exactly this group seed (replay)")
	_ = fs.Parse(args)
	w := os.Stdout
	if *out != "-" {
		fh, err := os.Create(*out)
		if err != nil {
			panic(err)
		}
		defer fh.Close()
		w = fh
	}
	bw := bufio.NewWriterSize(w, 1<<20)
	defer bw.Flush()
	results := make([]map[string]any, *n)
	var wg sync.WaitGroup
	sem := make(chan struct{}, *workers)
	for i := 0; i < *n; i++ {
		wg.Add(1)
		sem <- struct{}{}
		go func(i int) {
			defer wg.Done()
			defer func() { <-sem }()
			sd := *seed*1000003 + uint64(i)
			if *exact != 0 {
				sd = *exact
			}
			results[i] = runStackGroup(sd, *dir)
		}(i)
	}
	wg.Wait()
	enc := json.NewEncoder(bw)
	for _, r := range results {
		if err := enc.Encode(r); err != nil {
			panic(err)
		}
	}
}

func init() { extraCmds["stack"] = cmdStack }
