//go:build verif

package main

// gen: the translator.  Re-reads /repo's sources with go/ast and re-emits coq/Gen/*.v (see DESIGN.md §2(1),
// Appendix B).  A file is rewritten only when its content changed, so `make` stays incremental.

import (
	"flag"
	"fmt"
	"os"
	"path/filepath"
)

type genFile struct {
	name string
	body func(repo string) (string, error)
}

var genFiles []genFile

func writeIfChanged(path, content string) error {
	old, err := os.ReadFile(path)
	if err == nil && string(old) == content {
		return nil
	}
	return os.WriteFile(path, []byte(content), 0o644)
}

func cmdGen(args []string) {
	fs := flag.NewFlagSet("gen", flag.ExitOnError)
	repo := fs.String("repo", "/repo", "repository root")
	out := fs.String("out", "", "output directory (coq/Gen)")
	_ = fs.Parse(args)
	if err := os.MkdirAll(*out, 0o755); err != nil {
		fmt.Fprintln(os.Stderr, err)
		os.Exit(1)
	}
	for _, g := range genFiles {
		body, err := g.body(*repo)
		if err != nil {
			fmt.Fprintf(os.Stderr, "gen %s: %v\n", g.name, err)
			os.Exit(1)
		}
		if err := writeIfChanged(filepath.Join(*out, g.name), body); err != nil {
			fmt.Fprintln(os.Stderr, err)
			os.Exit(1)
		}
	}
}

func init() { extraCmds["gen"] = cmdGen }
