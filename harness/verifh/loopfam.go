//go:build verif

package main

// Family "loop" (C12): the production System.Loop on its own goroutine with the production api and aio (echo
// subsystem) - the part of C12 that lives in goroutines.  The aio's Signal is wrapped by a gate so that the harness
// decides when the loop may leave the end of an iteration; requests and the shutdown are injected either while the
// loop sits in its select (point A) or while it waits for the signal goroutines to finish (point B).  Every request
// that was accepted must be answered exactly once - processed if it came before the shutdown, refused otherwise - and
// the loop must return.  coq/Model/Loop.v states what is expected.

import (
	"bufio"
	"encoding/json"
	"flag"
	"fmt"
	"os"
	"sync"
	"time"

	"github.com/prometheus/client_golang/prometheus"
	"github.com/resonatehq/resonate/internal/aio"
	"github.com/resonatehq/resonate/internal/api"
	"github.com/resonatehq/resonate/internal/app/coroutines"
	"github.com/resonatehq/resonate/internal/app/subsystems/aio/echo"
	"github.com/resonatehq/resonate/internal/kernel/bus"
	"github.com/resonatehq/resonate/internal/kernel/system"
	"github.com/resonatehq/resonate/internal/kernel/t_api"
	"github.com/resonatehq/resonate/internal/metrics"
)

type gatedAIO struct {
	aio.AIO
	called  chan struct{} // the loop has created its signals and is about to select (point A)
	arrived chan struct{} // the loop has closed cancel and waits for the aio signal to finish (point B)
	permit  chan struct{}
}

func (g *gatedAIO) Signal(cancel <-chan any) <-chan any {
	inner := g.AIO.Signal(cancel)
	out := make(chan any)
	g.called <- struct{}{}
	go func() {
		// the gated channel never fires before the loop has cancelled its signals
		<-cancel
		<-inner
		g.arrived <- struct{}{}
		<-g.permit
		close(out)
	}()
	return out
}

func cmdLoop(args []string) {
	fs := flag.NewFlagSet("loop", flag.ExitOnError)
	seed := fs.Uint64("seed", 1, "base seed")
	n := fs.Int("n", 10, "number of case groups")
	out := fs.String("out", "-", "output file (JSON lines)")
	workers := fs.Int("workers", 8, "parallel groups")
	exact := fs.Uint64("seed-exact", 0, "run exactly this group seed (replay)")
	_ = fs.Parse(args)
	w := os.Stdout
	if *out != "-" {
		fh, err := os.Create(*out)
		if err != nil {
			panic(err)
		}
		defer fh.Close()
		w = fh
	}
	bw := bufio.NewWriterSize(w, 1<<20)
	defer bw.Flush()
	enc := json.NewEncoder(bw)
	results := make([]map[string]any, *n)
	var wg sync.WaitGroup
	sem := make(chan struct{}, *workers)
	for i := 0; i < *n; i++ {
		wg.Add(1)
		sem <- struct{}{}
		go func(i int) {
			defer wg.Done()
			defer func() { <-sem }()
			sd := *seed*1000003 + uint64(i)
			if *exact != 0 {
				sd = *exact
			}
			results[i] = runLoopGroup(sd)
		}(i)
	}
	wg.Wait()
	for _, r := range results {
		if err := enc.Encode(r); err != nil {
			panic(err)
		}
	}
}

func runLoopGroup(sd uint64) map[string]any {
	r := &rng{s: sd}
	cases := []term{}
	raws := []string{}
	stats := map[string]int{}
	for c := 0; c < 3; c++ {
		ops, answers, returned, desc := runLoopCase(r, stats)
		cases = append(cases, C("CLoop", L(ops...), L(answers...), returned))
		raws = append(raws, desc)
	}
	return map[string]any{"family": "loop", "seed": sd, "cases": cases, "stats": stats, "raw": raws}
}

func runLoopCase(r *rng, stats map[string]int) (ops []term, answers []term, returned bool, desc string) {
	m := metrics.New(prometheus.NewRegistry())
	ap := api.New(100, m)
	real := aio.New(100, m)
	ec, err := echo.New(real, m, &echo.Config{Size: 100, BatchSize: 1, Workers: 1})
	if err != nil {
		panic(err)
	}
	real.AddSubsystem(ec)
	if err := ap.Start(); err != nil {
		panic(err)
	}
	if err := real.Start(); err != nil {
		panic(err)
	}
	g := &gatedAIO{AIO: real, called: make(chan struct{}, 1), arrived: make(chan struct{}, 1), permit: make(chan struct{})}
	sys := system.New(ap, g, &system.Config{CoroutineMaxSize: 100, SubmissionBatchSize: 1 + r.intn(3), CompletionBatchSize: 1 + r.intn(3), SignalTimeout: 25 * time.Millisecond}, m)
	sys.AddOnRequest(t_api.Echo, coroutines.Echo)

	var mu sync.Mutex
	got := map[int][]bool{} // id -> outcomes (true: processed, false: refused / error)
	next := 0
	enq := func() {
		id := next
		next++
		ops = append(ops, C("LEnq", N(id)))
		stats["enq"]++
		ap.EnqueueSQE(&bus.SQE[t_api.Request, t_api.Response]{
			Submission: &t_api.Request{Kind: t_api.Echo, Tags: map[string]string{"id": fmt.Sprintf("r%d", id)}, Echo: &t_api.EchoRequest{Data: fmt.Sprintf("%d", id)}},
			Callback: func(res *t_api.Response, err error) {
				mu.Lock()
				got[id] = append(got[id], err == nil && res != nil && res.Echo != nil && res.Echo.Data == fmt.Sprintf("%d", id))
				mu.Unlock()
			},
		})
	}
	down := false
	shutdown := func() {
		if down {
			return
		}
		down = true
		ops = append(ops, C("LShutdown"))
		stats["shutdown"]++
		sys.Shutdown()
	}
	act := func() {
		switch x := r.intn(10); {
		case x < 4:
			enq()
		case x < 5:
			enq()
			enq()
		case x < 7:
			shutdown()
		}
	}
	done := make(chan struct{})
	go func() {
		_ = sys.Loop()
		close(done)
	}()
	finished := false
	wait := func(ch chan struct{}) bool { // false: the loop returned (or is stuck) instead
		select {
		case <-ch:
			return true
		case <-done:
			finished = true
			return false
		case <-time.After(3 * time.Second):
			return false
		}
	}
	iters := 3 + r.intn(5)
	step := func(scripted bool) bool {
		if !wait(g.called) { // point A: the loop is in (or about to enter) its select
			return false
		}
		if scripted {
			act()
		}
		if !wait(g.arrived) { // point B: the loop has cancelled its signals and waits for them to finish
			return false
		}
		if scripted {
			act()
		}
		ops = append(ops, C("LStep"))
		select {
		case g.permit <- struct{}{}:
			return true
		case <-done:
			finished = true
		case <-time.After(3 * time.Second):
		}
		return false
	}
	for it := 0; it < iters && !finished; it++ {
		if !step(true) {
			break
		}
	}
	shutdown()
	// drain: let the loop run (bounded by time, not by iterations: after the shutdown an iteration takes microseconds
	// and the subsystem workers need real time to complete what they accepted)
	start := time.Now()
	for !finished && time.Since(start) < 5*time.Second {
		if !step(false) {
			break
		}
		time.Sleep(200 * time.Microsecond)
	}
	if !finished {
		select {
		case <-done:
			finished = true
		case <-time.After(2 * time.Second):
		}
	}
	returned = finished
	mu.Lock()
	for id := 0; id < next; id++ {
		processed, refused := 0, 0
		for _, o := range got[id] {
			if o {
				processed++
			} else {
				refused++
			}
		}
		answers = append(answers, P(N(id), N(processed), N(refused)))
	}
	mu.Unlock()
	if !returned {
		stats["loop-did-not-return"]++
	}
	desc = fmt.Sprintf("%d requests, shutdown injected: %v, the loop returned: %v", next, down, returned)
	_ = ap.Stop()
	return
}

func init() { extraCmds["loop"] = cmdLoop }
