//go:build verif

package main

// Family "kernel" (C12): the production api (submission queue, shutting-down flag), the production System.Tick and
// the production coroutines of two request kinds (one that answers without IO, one that answers after one store
// round trip) under a scripted AIO, against coq/Model/Kernel.v.  Every response callback is counted per request.

import (
	"bufio"
	"encoding/json"
	"flag"
	"fmt"
	"os"
	"sort"

	"github.com/prometheus/client_golang/prometheus"
	"github.com/resonatehq/resonate/internal/api"
	"github.com/resonatehq/resonate/internal/app/coroutines"
	"github.com/resonatehq/resonate/internal/kernel/bus"
	"github.com/resonatehq/resonate/internal/kernel/system"
	"github.com/resonatehq/resonate/internal/kernel/t_aio"
	"github.com/resonatehq/resonate/internal/kernel/t_api"
	"github.com/resonatehq/resonate/internal/metrics"
)

func cmdKernel(args []string) {
	fs := flag.NewFlagSet("kernel", flag.ExitOnError)
	seed := fs.Uint64("seed", 1, "base seed")
	n := fs.Int("n", 10, "number of traces")
	out := fs.String("out", "-", "output file (JSON lines)")
	_ = fs.Int("workers", 1, "ignored")
	exact := fs.Uint64("seed-exact", 0, "run exactly this trace seed (replay)")
	_ = fs.Parse(args)
	w := os.Stdout
	if *out != "-" {
		fh, err := os.Create(*out)
		if err != nil {
			panic(err)
		}
		defer fh.Close()
		w = fh
	}
	bw := bufio.NewWriterSize(w, 1<<20)
	defer bw.Flush()
	enc := json.NewEncoder(bw)
	for i := 0; i < *n; i++ {
		sd := *seed*1000003 + uint64(i)
		if *exact != 0 {
			sd = *exact
		}
		r := &rng{s: sd}
		capSq, pool, batch, cbatch := 1+r.intn(6), 1+r.intn(4), 1+r.intn(6), 1+r.intn(3)
		m := metrics.New(prometheus.NewRegistry())
		a := api.New(capSq, m)
		v := newVaio()
		cfg := &system.Config{CoroutineMaxSize: pool, SubmissionBatchSize: batch, CompletionBatchSize: cbatch, SignalTimeout: 1}
		s := system.New(a, v, cfg, m)
		s.AddOnRequest(t_api.ReadPromise, coroutines.ReadPromise)
		s.AddOnRequest(t_api.CreateCallback, coroutines.CreateCallback)
		cases := []term{C("KInit", N(capSq), N(pool), N(batch), N(cbatch))}
		stats := map[string]int{}
		count := map[string]int{}
		var tickResp []term
		var readyOrder []*pendEntry
		var enqResp term
		inEnq := false
		now := int64(0)
		reqNo := 0
		for k := 0; k < 40; k++ {
			switch x := r.intn(20); {
			case x < 9:
				for j := 0; j < 1+r.intn(4); j++ {
					reqNo++
					id := fmt.Sprintf("q%03d", reqNo)
					imm := r.chance(0.5)
					var req *t_api.Request
					if imm {
						req = &t_api.Request{Kind: t_api.CreateCallback, Tags: map[string]string{"id": id, "name": "cb"},
							CreateCallback: &t_api.CreateCallbackRequest{PromiseId: "p", RootPromiseId: "p", Timeout: 1, Recv: json.RawMessage(`"default"`)}}
					} else {
						req = &t_api.Request{Kind: t_api.ReadPromise, Tags: map[string]string{"id": id, "name": "rd"}, ReadPromise: &t_api.ReadPromiseRequest{Id: "nope"}}
					}
					enqResp = nil
					inEnq = true
					rid := id
					a.EnqueueSQE(&bus.SQE[t_api.Request, t_api.Response]{Id: id, Submission: req, Callback: func(res *t_api.Response, err error) {
						count[rid]++
						var code int64
						if err != nil {
							if e, ok := err.(*t_api.Error); ok {
								code = int64(e.Code())
							} else {
								code = -1
							}
						} else {
							code = int64(res.Status())
						}
						if inEnq {
							enqResp = Some(code)
						} else {
							tickResp = append(tickResp, P(S(rid), code))
						}
					}})
					inEnq = false
					cases = append(cases, C("KEnq", S(id), imm, enqResp))
					stats["enq"]++
					if enqResp != nil {
						stats["enq:rejected"]++
					}
				}
			case x < 10 && k > 25 && r.chance(0.4):
				a.Shutdown()
				cases = append(cases, C("KShutdown"))
				stats["shutdown"]++
			case x >= 10 && x < 14:
				// an IO finishes
				var waiting []*pendEntry
				for _, e := range v.pend {
					if e.ready == nil {
						waiting = append(waiting, e)
					}
				}
				if len(waiting) == 0 {
					continue
				}
				e := pick(r, waiting)
				e.ready = &bus.CQE[t_aio.Submission, t_aio.Completion]{Id: e.id, Callback: e.sqe.Callback, Completion: &t_aio.Completion{Kind: t_aio.Store, Tags: e.sqe.Submission.Tags,
					Store: &t_aio.StoreCompletion{Results: []*t_aio.Result{{Kind: t_aio.ReadPromise, ReadPromise: &t_aio.QueryPromisesResult{RowsReturned: 0}}}}}}
				readyOrder = append(readyOrder, e)
				cases = append(cases, C("KComplete", S(e.id)))
				stats["complete"]++
			default:
				now++
				// the AIO hands over at most CompletionBatchSize completions, oldest first
				// oldest finished IO first: the order in which they were completed
				var cqes []*bus.CQE[t_aio.Submission, t_aio.Completion]
				for len(readyOrder) > 0 && len(cqes) < cbatch {
					e := readyOrder[0]
					readyOrder = readyOrder[1:]
					cqes = append(cqes, e.ready)
					v.remove(e)
				}
				v.deliver = cqes
				tickResp = nil
				s.Tick(now)
				cases = append(cases, C("KTick", L(tickResp...), s.Done()))
				stats["tick"]++
				stats["tick:responses"] += len(tickResp)
			}
		}
		// drain: no more requests; tick until done or a bound
		a.Shutdown()
		cases = append(cases, C("KShutdown"))
		for k := 0; k < 60 && !s.Done(); k++ {
			for _, e := range v.pend {
				if e.ready == nil {
					e.ready = &bus.CQE[t_aio.Submission, t_aio.Completion]{Id: e.id, Callback: e.sqe.Callback, Completion: &t_aio.Completion{Kind: t_aio.Store, Tags: e.sqe.Submission.Tags,
						Store: &t_aio.StoreCompletion{Results: []*t_aio.Result{{Kind: t_aio.ReadPromise, ReadPromise: &t_aio.QueryPromisesResult{RowsReturned: 0}}}}}}
					readyOrder = append(readyOrder, e)
					cases = append(cases, C("KComplete", S(e.id)))
				}
			}
			now++
			var cqes []*bus.CQE[t_aio.Submission, t_aio.Completion]
			for len(readyOrder) > 0 && len(cqes) < cbatch {
				e := readyOrder[0]
				readyOrder = readyOrder[1:]
				cqes = append(cqes, e.ready)
				v.remove(e)
			}
			v.deliver = cqes
			tickResp = nil
			s.Tick(now)
			cases = append(cases, C("KTick", L(tickResp...), s.Done()))
		}
		// the end-to-end statement, checked here as well: every request was answered exactly once
		ids := []string{}
		for j := 1; j <= reqNo; j++ {
			ids = append(ids, fmt.Sprintf("q%03d", j))
		}
		sort.Strings(ids)
		bad := []term{}
		for _, id := range ids {
			if count[id] != 1 {
				bad = append(bad, P(S(id), N(count[id])))
			}
		}
		if !s.Done() {
			stats["not-done"]++
		}
		if err := enc.Encode(map[string]any{"family": "kernel", "seed": sd, "cases": cases, "stats": stats, "not_once": bad, "done": s.Done()}); err != nil {
			panic(err)
		}
	}
}

func init() { extraCmds["kernel"] = cmdKernel }
