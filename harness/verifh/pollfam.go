//go:build verif

package main

// Family "poll" (C18): the production connection registry and PollWorker.Process, driven sequentially (the order
// in which the single worker goroutine handles connects, disconnects and messages), against coq/Model/Poll.v.

import (
	"bufio"
	"encoding/json"
	"flag"
	"fmt"
	"os"

	"github.com/resonatehq/resonate/internal/app/plugins/poll"
	"github.com/resonatehq/resonate/pkg/message"
)

func cmdPoll(args []string) {
	fs := flag.NewFlagSet("poll", flag.ExitOnError)
	seed := fs.Uint64("seed", 1, "base seed")
	n := fs.Int("n", 10, "number of traces")
	out := fs.String("out", "-", "output file (JSON lines)")
	_ = fs.Int("workers", 1, "ignored")
	exact := fs.Uint64("seed-exact", 0, "run exactly this trace seed (replay)")
	_ = fs.Parse(args)
	w := os.Stdout
	if *out != "-" {
		fh, err := os.Create(*out)
		if err != nil {
			panic(err)
		}
		defer fh.Close()
		w = fh
	}
	bw := bufio.NewWriterSize(w, 1<<20)
	defer bw.Flush()
	enc := json.NewEncoder(bw)
	for i := 0; i < *n; i++ {
		sd := *seed*1000003 + uint64(i)
		if *exact != 0 {
			sd = *exact
		}
		r := &rng{s: sd}
		max := 1 + r.intn(4)
		v := poll.NewVerif(max)
		cases := []term{}
		// the address a long-poll request names, through the production HTTP handler (paths begin with a slash, as
		// every server-side URL path does)
		for k := 0; k < 6; k++ {
			g := pick(r, []string{"g", "foo", "workers:2", "a b", ""})
			tail := pick(r, []string{"/a", "/a/", "/a/b", "/", "", "/a//b/", "//", "/%2F", "/a b"})
			path := "/" + g + tail
			gg, ii, reg, _ := poll.VerifPath(path)
			var obs term
			if reg {
				obs = Some(P(S(gg), S(ii)))
			}
			cases = append(cases, C("PPath", S(path), obs))
		}
		cases = append(cases, C("PInit", N(max)))
		stats := map[string]int{}
		var handles []*poll.VerifConn
		rowsT := func() term {
			rows, total := v.Rows()
			ts := []term{}
			for _, x := range rows {
				ts = append(ts, P(S(x.Group), S(x.Id), N(x.Cid), N(x.Len)))
			}
			return P(L(ts...), N(total))
		}
		for k := 0; k < 30; k++ {
			group := pick(r, []string{"g", "h"})
			id := pick(r, []string{"a", "b", "a/b", ""})
			switch x := r.intn(10); {
			case x < 3:
				buf := r.intn(3)
				if id == "" {
					id = "a"
				}
				h := v.Connect(group, id, buf)
				handles = append(handles, h)
				cases = append(cases, C("PConnect", S(group), S(id), N(h.Cid), N(buf), rowsT()))
				stats["connect"]++
			case x < 4:
				if len(handles) == 0 {
					continue
				}
				h := pick(r, handles)
				v.Disconnect(h)
				cases = append(cases, C("PDisconnect", N(h.Cid), rowsT()))
				stats["disconnect"]++
			case x < 6:
				if len(handles) == 0 {
					continue
				}
				h := pick(r, handles)
				bodies, closed := v.Drain(h)
				bs := []term{}
				for _, b := range bodies {
					bs = append(bs, S(string(b)))
				}
				cases = append(cases, C("PDrain", N(h.Cid), L(bs...), closed, rowsT()))
				stats["drain"]++
			default:
				mt := pick(r, []message.Type{message.Invoke, message.Resume, message.Notify})
				var data []byte
				if id == "" {
					data, _ = json.Marshal(map[string]string{"group": group})
				} else {
					data, _ = json.Marshal(map[string]string{"group": group, "id": id})
				}
				body := fmt.Sprintf("m%d", k)
				before, _ := v.Rows()
				ok, _ := v.Send(mt, data, []byte(body))
				after, _ := v.Rows()
				// which listener's buffer grew
				var got term
				for j := range after {
					if j < len(before) && after[j].Cid == before[j].Cid && after[j].Len == before[j].Len+1 {
						got = Some(N(after[j].Cid))
					}
				}
				cases = append(cases, C("PSend", mt == message.Notify, S(group), S(id), S(body), ok, got, rowsT()))
				stats["send"]++
				if ok {
					stats["send:ok"]++
				} else {
					stats["send:fail"]++
				}
			}
		}
		v.Close()
		if err := enc.Encode(map[string]any{"family": "poll", "seed": sd, "cases": cases, "stats": stats}); err != nil {
			panic(err)
		}
	}
}

func init() { extraCmds["poll"] = cmdPoll }
