//go:build verif

package main

// Family "route" (C19): the production router source (TagSource + RouterWorker.Process) and the production
// SenderWorker.Process against coq/Model/Route.v.  The JSON and URL libraries are oracles: the harness classifies
// every input with them (independently of the code paths under test) and the model decides on the classes.

import (
	"bufio"
	"bytes"
	"encoding/json"
	"flag"
	"fmt"
	"net/url"
	"os"
	"sort"
	"strings"

	"github.com/prometheus/client_golang/prometheus"
	"github.com/resonatehq/resonate/internal/aio"
	"github.com/resonatehq/resonate/internal/app/subsystems/aio/router"
	"github.com/resonatehq/resonate/internal/app/subsystems/aio/sender"
	"github.com/resonatehq/resonate/internal/kernel/bus"
	"github.com/resonatehq/resonate/internal/kernel/t_aio"
	"github.com/resonatehq/resonate/internal/metrics"
	"github.com/resonatehq/resonate/pkg/message"
	"github.com/resonatehq/resonate/pkg/promise"
	"github.com/resonatehq/resonate/pkg/receiver"
	"github.com/resonatehq/resonate/pkg/task"
)

func canon(raw []byte) string {
	if raw == nil {
		return "null"
	}
	var v any
	if err := json.Unmarshal(raw, &v); err != nil {
		return "!" + string(raw)
	}
	b, _ := json.Marshal(v)
	return string(b)
}

// classify a routing tag value: TNotJson | TJsonRecv ty data | TJsonOther
func classifyTag(v string) term {
	if !json.Valid([]byte(v)) {
		return C("TNotJson", S(v))
	}
	var g any
	_ = json.Unmarshal([]byte(v), &g)
	obj, ok := g.(map[string]any)
	if !ok {
		return C("TJsonOther")
	}
	var ty string
	var data []byte
	hasData := false
	var raw map[string]json.RawMessage
	_ = json.Unmarshal([]byte(v), &raw)
	for k := range obj {
		switch strings.ToLower(k) {
		case "type":
			s, ok := obj[k].(string)
			if !ok && obj[k] != nil {
				return C("TJsonOther")
			}
			ty = s
		case "data":
			data = raw[k]
			hasData = true
		default:
			return C("TJsonOther")
		}
	}
	if ty == "" {
		return C("TJsonOther")
	}
	if !hasData {
		data = nil
	}
	return C("TJsonRecv", S(ty), S(canon(data)))
}

// what a recv blob (router output, or a task's recv column) is: logical name or physical receiver
func observeRecv(b []byte) term {
	var s string
	if err := json.Unmarshal(b, &s); err == nil {
		return C("RLogical", S(s))
	}
	var r receiver.Recv
	if err := json.Unmarshal(b, &r); err == nil {
		return C("RPhysical", S(r.Type), S(canon(r.Data)))
	}
	return C("RBad")
}

func classifyURL(name string) term {
	u, err := url.Parse(name)
	if err != nil {
		return C("UOther")
	}
	switch u.Scheme {
	case "http", "https":
		return C("UHttp", S(u.String()))
	case "poll":
		id := strings.TrimPrefix(u.Path, "/")
		return C("UPoll", S(u.Host), S(id))
	}
	return C("UOther")
}

type capAIO struct {
	cqes []*bus.CQE[t_aio.Submission, t_aio.Completion]
}

func (a *capAIO) String() string                                              { return "cap" }
func (a *capAIO) Start() error                                                { return nil }
func (a *capAIO) Stop() error                                                 { return nil }
func (a *capAIO) Shutdown()                                                   {}
func (a *capAIO) Errors() <-chan error                                        { return nil }
func (a *capAIO) Signal(<-chan interface{}) <-chan interface{}                { return nil }
func (a *capAIO) Flush(int64)                                                 {}
func (a *capAIO) Dispatch(*t_aio.Submission, func(*t_aio.Completion, error))  {}
func (a *capAIO) EnqueueSQE(*bus.SQE[t_aio.Submission, t_aio.Completion])     {}
func (a *capAIO) EnqueueCQE(c *bus.CQE[t_aio.Submission, t_aio.Completion])   { a.cqes = append(a.cqes, c) }
func (a *capAIO) DequeueCQE(int) []*bus.CQE[t_aio.Submission, t_aio.Completion] { return nil }

type capPlugin struct {
	ty   string
	msgs []*aio.Message
	ok   bool
}

func (p *capPlugin) String() string           { return "cap:" + p.ty }
func (p *capPlugin) Type() string             { return p.ty }
func (p *capPlugin) Start(chan<- error) error { return nil }
func (p *capPlugin) Stop() error              { return nil }
func (p *capPlugin) Enqueue(m *aio.Message) bool {
	if !p.ok {
		return false
	}
	p.msgs = append(p.msgs, m)
	m.Done(true, nil)
	return true
}

var tagPool = []string{
	"default", "worker-1", "http://h/x", "https://h:8/y?z=1", "poll://g/i", "poll://g", "poll://workers:2/w1", "poll://workers:/w1", "poll://G:80", "poll://u@g/i", "poll://g/a/b", "ftp://h/x", "mailto:x", "",
	"http://target-name/x", "poll://named/w1", "a b", "{", "null", "1", "true", `"quoted"`, "[1,2]", "{}",
	`{"type":"poll","data":{"group":"g","id":"i"}}`, `{"type":"http","data":{"url":"http://h/x"}}`, `{"type":"poll"}`,
	`{"type":"pigeon","data":{}}`, `{"type":"","data":{}}`, `{"type":"poll","data":{"group":"g"},"extra":1}`, `{"data":{"group":"g"}}`,
	`{"type":"poll","data":null}`, `{"type":"http","data":[1,2]}`, ` {"type" : "poll", "data" : {"group" : "g"}} `, `{"type":5}`,
	// a JSON value followed by something else is not JSON: the tag is a plain name
	`{"type":"poll","data":{"group":"g"}} }`, `{"type":"poll","data":{"group":"g"}},`, `{"type":"poll","data":{"group":"g"}}{"type":"http","data":{"url":"http://h/x"}}`,
	`{"type":"http","data":{"url":"http://h/x"}} # note`, `null and void`, `{} workers`, `"quoted" x`, `5 6`, `true,`,
}

func cmdRoute(args []string) {
	fs := flag.NewFlagSet("route", flag.ExitOnError)
	seed := fs.Uint64("seed", 1, "base seed")
	n := fs.Int("n", 10, "number of case groups")
	out := fs.String("out", "-", "output file (JSON lines)")
	_ = fs.Int("workers", 1, "ignored")
	exact := fs.Uint64("seed-exact", 0, "run exactly this group seed (replay)")
	_ = fs.Parse(args)
	w := os.Stdout
	if *out != "-" {
		fh, err := os.Create(*out)
		if err != nil {
			panic(err)
		}
		defer fh.Close()
		w = fh
	}
	bw := bufio.NewWriterSize(w, 1<<20)
	defer bw.Flush()
	enc := json.NewEncoder(bw)
	reg := prometheus.NewRegistry()
	m := metrics.New(reg)
	rt, err := router.New(nil, m, &router.Config{Workers: 1})
	if err != nil {
		panic(err)
	}
	for i := 0; i < *n; i++ {
		sd := *seed*1000003 + uint64(i)
		if *exact != 0 {
			sd = *exact
		}
		r := &rng{s: sd}
		cases := []term{}
		stats := map[string]int{}
		for k := 0; k < 12; k++ {
			// ---- router ----
			tag := pick(r, tagPool)
			if r.chance(0.15) {
				tag = fmt.Sprintf("n%d", r.intn(5))
			}
			tags := map[string]string{"other": "x"}
			present := r.chance(0.9)
			if present {
				tags["resonate:invoke"] = tag
			}
			p := &promise.Promise{Id: "p", State: promise.Pending, Tags: tags}
			var cqe *bus.CQE[t_aio.Submission, t_aio.Completion]
			var obs term = C("RNone")
			func() {
				defer func() {
					if e := recover(); e != nil {
						obs = C("RPanic")
						cqe = &bus.CQE[t_aio.Submission, t_aio.Completion]{}
					}
				}()
				cqe = rt.Process([]*bus.SQE[t_aio.Submission, t_aio.Completion]{{Id: "x", Submission: &t_aio.Submission{Kind: t_aio.Router, Router: &t_aio.RouterSubmission{Promise: p}}}})[0]
				if cqe.Completion != nil && cqe.Completion.Router.Matched {
					obs = observeRecv(cqe.Completion.Router.Recv)
				}
			}()
			var cls term
			if present {
				cls = Some(classifyTag(tag))
			}
			cases = append(cases, C("CRoute", cls, obs))
			stats["route"]++

			// ---- sender ----
			var recvBytes []byte
			var recvT term
			switch r.intn(10) {
			case 9:
				// a receiver a client registered as the JSON literal null (or another non-receiver value)
				recvBytes = []byte(pick(r, []string{"null", "5", "[1]", "true"}))
				recvT = C("RNone")
			case 0, 1, 2:
				name := pick(r, tagPool)
				recvBytes, _ = json.Marshal(name)
				recvT = C("RLogical", S(name))
			case 3, 4, 5:
				ty := pick(r, []string{"poll", "http", "pigeon"})
				data := pick(r, []string{`{"group":"g","id":"i"}`, `{"url":"http://h/x"}`, `{}`, `null`, `[1]`})
				recvBytes, _ = json.Marshal(&receiver.Recv{Type: ty, Data: json.RawMessage(data)})
				recvT = C("RPhysical", S(ty), S(canon([]byte(data))))
			default:
				if cqe.Completion != nil && cqe.Completion.Router.Matched {
					recvBytes = cqe.Completion.Router.Recv
					recvT = observeRecv(recvBytes)
				} else {
					recvBytes, _ = json.Marshal("default")
					recvT = C("RLogical", S("default"))
				}
			}
			// targets table
			targets := map[string]*receiver.Recv{}
			tterms := []term{}
			names := []string{"default", "worker-1", "http://target-name/x", "poll://named/w1", "n1", "n2"}
			sort.Strings(names)
			for _, nm := range names {
				if r.chance(0.45) {
					ty := pick(r, []string{"poll", "http", "pigeon"})
					data := pick(r, []string{`{"group":"tg"}`, `{"url":"http://t/1"}`})
					targets[nm] = &receiver.Recv{Type: ty, Data: json.RawMessage(data)}
					tterms = append(tterms, P(S(nm), P(S(ty), S(canon([]byte(data))))))
				}
			}
			plugins := []aio.Plugin{}
			pterms := []term{}
			caps := map[string]*capPlugin{}
			for _, ty := range []string{"http", "poll"} {
				if r.chance(0.8) {
					cp := &capPlugin{ty: ty, ok: r.chance(0.9)}
					caps[ty] = cp
					plugins = append(plugins, cp)
					pterms = append(pterms, P(S(ty), cp.ok))
				}
			}
			a := &capAIO{}
			wk := sender.VerifWorker(targets, plugins, a, m)
			mt := pick(r, []message.Type{message.Invoke, message.Resume, message.Notify})
			tk := &task.Task{Id: fmt.Sprintf("t%d", r.intn(3)), Counter: 1 + r.intn(3), Recv: recvBytes, Mesg: &message.Mesg{Type: mt, Root: "r", Leaf: "l"}}
			sub := &t_aio.Submission{Kind: t_aio.Sender, Sender: &t_aio.SenderSubmission{Task: tk, ClaimHref: "c/" + tk.Id, CompleteHref: "k/" + tk.Id, HeartbeatHref: "h/" + tk.Id}}
			if mt == message.Notify {
				sub.Sender.Promise = &promise.Promise{Id: "np", State: promise.Resolved}
			}
			var sobs term
			func() {
				defer func() {
					if e := recover(); e != nil {
						sobs = C("OPanic")
					}
				}()
				wk.Process(&bus.SQE[t_aio.Submission, t_aio.Completion]{Id: "s", Submission: sub})
				delivered := false
				for ty, cp := range caps {
					for _, mm := range cp.msgs {
						delivered = true
						var body map[string]json.RawMessage
						_ = json.Unmarshal(mm.Body, &body)
						var bt string
						_ = json.Unmarshal(body["type"], &bt)
						var bodyT term
						if bt == "notify" {
							var pp struct{ Id string `json:"id"` }
							_ = json.Unmarshal(body["promise"], &pp)
							bodyT = C("BNotify", S(pp.Id))
						} else {
							var tt struct {
								Id      string `json:"id"`
								Counter int    `json:"counter"`
							}
							_ = json.Unmarshal(body["task"], &tt)
							var hr map[string]string
							_ = json.Unmarshal(body["href"], &hr)
							bodyT = C("BTask", S(bt), S(tt.Id), tt.Counter, S(hr["claim"]), S(hr["complete"]), S(hr["heartbeat"]))
						}
						sobs = C("ODeliver", S(ty), S(canon(mm.Data)), bodyT)
					}
				}
				if !delivered {
					if len(a.cqes) == 1 && a.cqes[0].Error != nil {
						sobs = C("OFail")
					} else {
						sobs = C("OLost")
					}
				} else if len(a.cqes) != 1 || a.cqes[0].Error != nil || a.cqes[0].Completion == nil || !a.cqes[0].Completion.Sender.Success {
					sobs = C("OLost")
				}
			}()
			var uclass term = C("UOther")
			if s, ok := recvT.([]any); ok && s[0] == "RLogical" {
				var nm string
				_ = json.Unmarshal(recvBytes, &nm)
				uclass = classifyURL(nm)
			}
			var bodyExp term
			if mt == message.Notify {
				bodyExp = C("BNotify", S("np"))
			} else {
				bodyExp = C("BTask", S(string(mt)), S(tk.Id), tk.Counter, S("c/"+tk.Id), S("k/"+tk.Id), S("h/"+tk.Id))
			}
			cases = append(cases, C("CSend", L(tterms...), L(pterms...), recvT, uclass, bodyExp, sobs))
			stats["send"]++
			if so, ok := sobs.([]any); ok {
				stats["send:"+so[0].(string)]++
			}
		}
		// ---- a burst through ONE worker: the transports consume queued messages later, so what matters is what each
		// message says when it is dispatched, i.e. after the worker has gone on to the next submissions ----
		for _, c := range sendBurst(r, m) {
			cases = append(cases, c)
			stats["send"]++
			stats["send:burst"]++
		}
		_ = bytes.MinRead
		if err := enc.Encode(map[string]any{"family": "route", "seed": sd, "cases": cases, "stats": stats}); err != nil {
			panic(err)
		}
	}
}

func decodeBody(raw []byte) term {
	var body map[string]json.RawMessage
	_ = json.Unmarshal(raw, &body)
	var bt string
	_ = json.Unmarshal(body["type"], &bt)
	if bt == "notify" {
		var pp struct {
			Id string `json:"id"`
		}
		_ = json.Unmarshal(body["promise"], &pp)
		return C("BNotify", S(pp.Id))
	}
	var tt struct {
		Id      string `json:"id"`
		Counter int    `json:"counter"`
	}
	_ = json.Unmarshal(body["task"], &tt)
	var hr map[string]string
	_ = json.Unmarshal(body["href"], &hr)
	return C("BTask", S(bt), S(tt.Id), tt.Counter, S(hr["claim"]), S(hr["complete"]), S(hr["heartbeat"]))
}

// K submissions handed to one SenderWorker back to back; the capturing transports keep the messages and look at
// them only after the last Process call (as the real transports do from their own queues)
func sendBurst(r *rng, m *metrics.Metrics) []term {
	caps := map[string]*capPlugin{"http": {ty: "http", ok: true}, "poll": {ty: "poll", ok: true}}
	a := &capAIO{}
	wk := sender.VerifWorker(map[string]*receiver.Recv{}, []aio.Plugin{caps["http"], caps["poll"]}, a, m)
	type sent struct {
		ty      string
		data    string
		bodyExp term
		idx     int // index of its message in the transport's queue, -1 if none
		panicked bool
	}
	k := 2 + r.intn(3)
	sends := []sent{}
	for j := 0; j < k; j++ {
		ty := pick(r, []string{"poll", "http"})
		data := `{"group":"g","id":"i"}`
		if ty == "http" {
			data = `{"url":"http://h/x"}`
		}
		recvBytes, _ := json.Marshal(&receiver.Recv{Type: ty, Data: json.RawMessage(data)})
		mt := pick(r, []message.Type{message.Invoke, message.Resume, message.Notify})
		// ids of equal and of different lengths
		tk := &task.Task{Id: pick(r, []string{"ta", "tb", "tc", "t-long-id", "u"}), Counter: 1 + r.intn(9), Recv: recvBytes, Mesg: &message.Mesg{Type: mt, Root: "r", Leaf: "l"}}
		sub := &t_aio.Submission{Kind: t_aio.Sender, Sender: &t_aio.SenderSubmission{Task: tk, ClaimHref: "c/" + tk.Id, CompleteHref: "k/" + tk.Id, HeartbeatHref: "h/" + tk.Id}}
		var bodyExp term
		if mt == message.Notify {
			pid := pick(r, []string{"np", "nq", "n-long"})
			sub.Sender.Promise = &promise.Promise{Id: pid, State: promise.Resolved}
			bodyExp = C("BNotify", S(pid))
		} else {
			bodyExp = C("BTask", S(string(mt)), S(tk.Id), tk.Counter, S("c/"+tk.Id), S("k/"+tk.Id), S("h/"+tk.Id))
		}
		st := sent{ty: ty, data: data, bodyExp: bodyExp, idx: -1}
		before := len(caps[ty].msgs)
		func() {
			defer func() {
				if e := recover(); e != nil {
					st.panicked = true
				}
			}()
			wk.Process(&bus.SQE[t_aio.Submission, t_aio.Completion]{Id: fmt.Sprintf("s%d", j), Submission: sub})
		}()
		if len(caps[ty].msgs) == before+1 {
			st.idx = before
		}
		sends = append(sends, st)
	}
	out := []term{}
	for j, st := range sends {
		var sobs term
		switch {
		case st.panicked:
			sobs = C("OPanic")
		case st.idx < 0:
			sobs = C("OLost")
		default:
			mm := caps[st.ty].msgs[st.idx]
			sobs = C("ODeliver", S(st.ty), S(canon(mm.Data)), decodeBody(mm.Body))
			if j >= len(a.cqes) || a.cqes[j].Error != nil || a.cqes[j].Completion == nil || !a.cqes[j].Completion.Sender.Success {
				sobs = C("OLost")
			}
		}
		out = append(out, C("CSend", L(), L(P(S("http"), true), P(S("poll"), true)), C("RPhysical", S(st.ty), S(canon([]byte(st.data)))), C("UOther"), st.bodyExp, sobs))
	}
	return out
}

func init() { extraCmds["route"] = cmdRoute }
