//go:build verif

package main

// Encoders: Go values of resonate -> generic JSON terms that tools/emit.py prints as Gallina terms.
// A term is one of
//   number                      -> Z literal
//   {"n": k}                    -> nat literal
//   true / false                -> bool
//   {"s": "text"}               -> string literal (printable ASCII only)
//   {"x": "hex"}                -> string literal given as bytes
//   null                        -> None
//   {"some": t}                 -> Some t
//   {"l": [t...]}               -> list
//   {"p": [t...]}               -> tuple
//   ["Ctor", t...]              -> constructor application
// The constructor names are those of coq/Model/*.v.

import (
	"encoding/hex"
	"encoding/json"
	"sort"

	"github.com/resonatehq/resonate/internal/kernel/t_aio"
	"github.com/resonatehq/resonate/internal/kernel/t_api"
	"github.com/resonatehq/resonate/pkg/callback"
	"github.com/resonatehq/resonate/pkg/idempotency"
	"github.com/resonatehq/resonate/pkg/lock"
	"github.com/resonatehq/resonate/pkg/message"
	"github.com/resonatehq/resonate/pkg/promise"
	"github.com/resonatehq/resonate/pkg/schedule"
	"github.com/resonatehq/resonate/pkg/task"
)

type term = any

func C(name string, args ...term) term { return append([]any{name}, args...) }
func L(items ...term) term {
	if items == nil {
		items = []term{}
	}
	return map[string]any{"l": items}
}
func P(items ...term) term { return map[string]any{"p": items} }
func N(n int) term         { return map[string]any{"n": n} }
func Some(t term) term     { return map[string]any{"some": t} }

func S(s string) term { return B([]byte(s)) }
func B(b []byte) term {
	for _, c := range b {
		if c < 0x20 || c > 0x7e || c == '"' {
			return map[string]any{"x": hex.EncodeToString(b)}
		}
	}
	return map[string]any{"s": string(b)}
}

func OptS(s *string) term {
	if s == nil {
		return nil
	}
	return Some(S(*s))
}
func OptKey(k *idempotency.Key) term {
	if k == nil {
		return nil
	}
	return Some(S(string(*k)))
}
func OptI(i *int64) term {
	if i == nil {
		return nil
	}
	return Some(*i)
}
func I0(i *int64) int64 {
	if i == nil {
		return 0
	}
	return *i
}

func M(m map[string]string) term {
	keys := make([]string, 0, len(m))
	for k := range m {
		keys = append(keys, k)
	}
	sort.Strings(keys)
	items := []term{}
	for _, k := range keys {
		items = append(items, P(S(k), S(m[k])))
	}
	return L(items...)
}

// JSON blob holding a flat string map (NULL / invalid -> empty)
func MJ(b []byte) term {
	m := map[string]string{}
	if b != nil {
		_ = json.Unmarshal(b, &m)
	}
	return M(m)
}

func Mesg(m *message.Mesg) term {
	if m == nil {
		return C("mkMesg", S(""), S(""), S(""))
	}
	return C("mkMesg", S(string(m.Type)), S(m.Root), S(m.Leaf))
}
func MesgJ(b []byte) term {
	var m *message.Mesg
	_ = json.Unmarshal(b, &m)
	return Mesg(m)
}

func States[T ~int](ss []T) term {
	items := []term{}
	for _, s := range ss {
		items = append(items, int64(s))
	}
	return L(items...)
}

// ---- rows / resources ----

func PromiseT(p *promise.Promise) term {
	return C("mkP", S(p.Id), p.SortId, int64(p.State), M(p.Param.Headers), B(p.Param.Data), M(p.Value.Headers), B(p.Value.Data),
		p.Timeout, OptKey(p.IdempotencyKeyForCreate), OptKey(p.IdempotencyKeyForComplete), M(p.Tags), I0(p.CreatedOn), OptI(p.CompletedOn))
}
func PromiseNoSort(p *promise.Promise) term {
	q := *p
	q.SortId = 0
	return PromiseT(&q)
}
func OptPromise(p *promise.Promise) term {
	if p == nil {
		return nil
	}
	return Some(PromiseNoSort(p))
}
func PromiseRec(r *promise.PromiseRecord) term {
	return C("mkP", S(r.Id), r.SortId, int64(r.State), MJ(r.ParamHeaders), B(r.ParamData), MJ(r.ValueHeaders), B(r.ValueData),
		r.Timeout, OptKey(r.IdempotencyKeyForCreate), OptKey(r.IdempotencyKeyForComplete), MJ(r.Tags), I0(r.CreatedOn), OptI(r.CompletedOn))
}

func TaskT(t *task.Task) term {
	return C("mkT", S(t.Id), 0, OptS(t.ProcessId), int64(t.State), S(t.RootPromiseId), B(t.Recv), Mesg(t.Mesg), t.Timeout,
		int64(t.Counter), int64(t.Attempt), int64(t.Ttl), t.ExpiresAt, I0(t.CreatedOn), OptI(t.CompletedOn))
}
func OptTask(t *task.Task) term {
	if t == nil {
		return nil
	}
	return Some(TaskT(t))
}
func TaskRec(r *task.TaskRecord) term {
	return C("mkT", S(r.Id), 0, OptS(r.ProcessId), int64(r.State), S(r.RootPromiseId), B(r.Recv), MesgJ(r.Mesg), r.Timeout,
		int64(r.Counter), int64(r.Attempt), int64(r.Ttl), r.ExpiresAt, I0(r.CreatedOn), OptI(r.CompletedOn))
}

func ScheduleT(s *schedule.Schedule) term {
	return C("mkS", S(s.Id), 0, S(s.Description), S(s.Cron), M(s.Tags), S(s.PromiseId), s.PromiseTimeout,
		M(s.PromiseParam.Headers), B(s.PromiseParam.Data), M(s.PromiseTags), OptI(s.LastRunTime), s.NextRunTime,
		OptKey(s.IdempotencyKey), s.CreatedOn)
}
func OptSchedule(s *schedule.Schedule) term {
	if s == nil {
		return nil
	}
	return Some(ScheduleT(s))
}
func ScheduleRec(r *schedule.ScheduleRecord) term {
	return C("mkS", S(r.Id), r.SortId, S(r.Description), S(r.Cron), MJ(r.Tags), S(r.PromiseId), r.PromiseTimeout,
		MJ(r.PromiseParamHeaders), B(r.PromiseParamData), MJ(r.PromiseTags), OptI(r.LastRunTime), r.NextRunTime,
		OptKey(r.IdempotencyKey), r.CreatedOn)
}

func LockT(l *lock.Lock) term {
	return C("mkL", S(l.ResourceId), S(l.ExecutionId), S(l.ProcessId), l.Ttl, l.ExpiresAt)
}
func LockRec(r *lock.LockRecord) term {
	return C("mkL", S(r.ResourceId), S(r.ExecutionId), S(r.ProcessId), r.Ttl, r.ExpiresAt)
}

func CallbackT(c *callback.Callback) term {
	root := ""
	if c.Mesg != nil {
		root = c.Mesg.Root
	}
	return C("mkCb", S(c.Id), S(c.PromiseId), S(root), B(c.Recv), Mesg(c.Mesg), c.Timeout, c.CreatedOn)
}

// ---- commands ----

func cpCmd(c *t_aio.CreatePromiseCommand) term {
	return C("mkCP", S(c.Id), M(c.Param.Headers), B(c.Param.Data), c.Timeout, OptKey(c.IdempotencyKey), M(c.Tags), c.CreatedOn)
}
func ctCmd(c *t_aio.CreateTaskCommand) term {
	return C("mkCT", S(c.Id), B(c.Recv), Mesg(c.Mesg), c.Timeout, OptS(c.ProcessId), int64(c.State), int64(c.Ttl), c.ExpiresAt, c.CreatedOn)
}

func CommandT(c *t_aio.Command) term {
	switch c.Kind {
	case t_aio.ReadPromise:
		return C("ReadPromise", S(c.ReadPromise.Id))
	case t_aio.ReadPromises:
		return C("ReadPromises", c.ReadPromises.Time, int64(c.ReadPromises.Limit))
	case t_aio.SearchPromises:
		x := c.SearchPromises
		return C("SearchPromises", S(x.Id), States(x.States), M(x.Tags), int64(x.Limit), OptI(x.SortId))
	case t_aio.CreatePromise:
		return C("CreatePromise", cpCmd(c.CreatePromise))
	case t_aio.UpdatePromise:
		x := c.UpdatePromise
		return C("UpdatePromise", C("mkUP", S(x.Id), int64(x.State), M(x.Value.Headers), B(x.Value.Data), OptKey(x.IdempotencyKey), x.CompletedOn))
	case t_aio.CreateCallback:
		x := c.CreateCallback
		return C("CreateCallback", C("mkCC", S(x.Id), S(x.PromiseId), B(x.Recv), Mesg(x.Mesg), x.Timeout, x.CreatedOn))
	case t_aio.DeleteCallbacks:
		return C("DeleteCallbacks", S(c.DeleteCallbacks.PromiseId))
	case t_aio.ReadSchedule:
		return C("ReadSchedule", S(c.ReadSchedule.Id))
	case t_aio.ReadSchedules:
		return C("ReadSchedules", c.ReadSchedules.NextRunTime, int64(c.ReadSchedules.Limit))
	case t_aio.SearchSchedules:
		x := c.SearchSchedules
		return C("SearchSchedules", S(x.Id), M(x.Tags), int64(x.Limit), OptI(x.SortId))
	case t_aio.CreateSchedule:
		x := c.CreateSchedule
		return C("CreateSchedule", C("mkCS", S(x.Id), S(x.Description), S(x.Cron), M(x.Tags), S(x.PromiseId), x.PromiseTimeout,
			M(x.PromiseParam.Headers), B(x.PromiseParam.Data), M(x.PromiseTags), x.NextRunTime, OptKey(x.IdempotencyKey), x.CreatedOn))
	case t_aio.UpdateSchedule:
		x := c.UpdateSchedule
		return C("UpdateSchedule", S(x.Id), OptI(x.LastRunTime), x.NextRunTime)
	case t_aio.DeleteSchedule:
		return C("DeleteSchedule", S(c.DeleteSchedule.Id))
	case t_aio.ReadTask:
		return C("ReadTask", S(c.ReadTask.Id))
	case t_aio.ReadEnqueueableTasks:
		return C("ReadEnqueueableTasks", int64(c.ReadEnquableTasks.Limit))
	case t_aio.ReadTasks:
		x := c.ReadTasks
		return C("ReadTasks", States(x.States), x.Time, int64(x.Limit))
	case t_aio.CreateTask:
		return C("CreateTask", ctCmd(c.CreateTask))
	case t_aio.CreateTasks:
		return C("CreateTasks", S(c.CreateTasks.PromiseId), c.CreateTasks.CreatedOn)
	case t_aio.CompleteTasks:
		return C("CompleteTasks", S(c.CompleteTasks.RootPromiseId), c.CompleteTasks.CompletedOn)
	case t_aio.UpdateTask:
		x := c.UpdateTask
		return C("UpdateTask", C("mkUT", S(x.Id), OptS(x.ProcessId), int64(x.State), int64(x.Counter), int64(x.Attempt), int64(x.Ttl),
			x.ExpiresAt, OptI(x.CompletedOn), States(x.CurrentStates), int64(x.CurrentCounter)))
	case t_aio.HeartbeatTasks:
		return C("HeartbeatTasks", S(c.HeartbeatTasks.ProcessId), c.HeartbeatTasks.Time)
	case t_aio.CreatePromiseAndTask:
		return C("CreatePromiseAndTask", cpCmd(c.CreatePromiseAndTask.PromiseCommand), ctCmd(c.CreatePromiseAndTask.TaskCommand))
	case t_aio.ReadLock:
		return C("ReadLock", S(c.ReadLock.ResourceId))
	case t_aio.AcquireLock:
		x := c.AcquireLock
		return C("AcquireLock", S(x.ResourceId), S(x.ExecutionId), S(x.ProcessId), x.Ttl, x.ExpiresAt)
	case t_aio.ReleaseLock:
		return C("ReleaseLock", S(c.ReleaseLock.ResourceId), S(c.ReleaseLock.ExecutionId))
	case t_aio.HeartbeatLocks:
		return C("HeartbeatLocks", S(c.HeartbeatLocks.ProcessId), c.HeartbeatLocks.Time)
	case t_aio.TimeoutLocks:
		return C("TimeoutLocks", c.TimeoutLocks.Timeout)
	}
	panic("unknown command kind")
}

func TxnT(t *t_aio.Transaction) term {
	items := []term{}
	for _, c := range t.Commands {
		items = append(items, CommandT(c))
	}
	return L(items...)
}

// ---- results ----

func promiseRecs(rs []*promise.PromiseRecord) term {
	items := []term{}
	for _, r := range rs {
		items = append(items, PromiseRec(r))
	}
	return L(items...)
}
func scheduleRecs(rs []*schedule.ScheduleRecord) term {
	items := []term{}
	for _, r := range rs {
		items = append(items, ScheduleRec(r))
	}
	return L(items...)
}
func taskRecs(rs []*task.TaskRecord) term {
	items := []term{}
	for _, r := range rs {
		items = append(items, TaskRec(r))
	}
	return L(items...)
}
func lockRecs(rs []*lock.LockRecord) term {
	items := []term{}
	for _, r := range rs {
		items = append(items, LockRec(r))
	}
	return L(items...)
}

func ResultT(r *t_aio.Result) term {
	if r == nil {
		// a committed batch must have a result for every command; a nil slot is reported as an impossible row count
		return C("RAlter", int64(-999))
	}
	switch r.Kind {
	case t_aio.ReadPromise:
		return C("RPromises", r.ReadPromise.RowsReturned, r.ReadPromise.LastSortId, promiseRecs(r.ReadPromise.Records))
	case t_aio.ReadPromises:
		return C("RPromises", r.ReadPromises.RowsReturned, r.ReadPromises.LastSortId, promiseRecs(r.ReadPromises.Records))
	case t_aio.SearchPromises:
		return C("RPromises", r.SearchPromises.RowsReturned, r.SearchPromises.LastSortId, promiseRecs(r.SearchPromises.Records))
	case t_aio.CreatePromise:
		return C("RAlter", r.CreatePromise.RowsAffected)
	case t_aio.UpdatePromise:
		return C("RAlter", r.UpdatePromise.RowsAffected)
	case t_aio.CreateCallback:
		return C("RAlter", r.CreateCallback.RowsAffected)
	case t_aio.DeleteCallbacks:
		return C("RAlter", r.DeleteCallbacks.RowsAffected)
	case t_aio.ReadSchedule:
		return C("RSchedules", r.ReadSchedule.RowsReturned, r.ReadSchedule.LastSortId, scheduleRecs(r.ReadSchedule.Records))
	case t_aio.ReadSchedules:
		return C("RSchedules", r.ReadSchedules.RowsReturned, r.ReadSchedules.LastSortId, scheduleRecs(r.ReadSchedules.Records))
	case t_aio.SearchSchedules:
		return C("RSchedules", r.SearchSchedules.RowsReturned, r.SearchSchedules.LastSortId, scheduleRecs(r.SearchSchedules.Records))
	case t_aio.CreateSchedule:
		return C("RAlter", r.CreateSchedule.RowsAffected)
	case t_aio.UpdateSchedule:
		return C("RAlter", r.UpdateSchedule.RowsAffected)
	case t_aio.DeleteSchedule:
		return C("RAlter", r.DeleteSchedule.RowsAffected)
	case t_aio.ReadTask:
		return C("RTasks", r.ReadTask.RowsReturned, taskRecs(r.ReadTask.Records))
	case t_aio.ReadTasks:
		return C("RTasks", r.ReadTasks.RowsReturned, taskRecs(r.ReadTasks.Records))
	case t_aio.ReadEnqueueableTasks:
		return C("RTasks", r.ReadEnqueueableTasks.RowsReturned, taskRecs(r.ReadEnqueueableTasks.Records))
	case t_aio.CreateTask:
		return C("RAlter", r.CreateTask.RowsAffected)
	case t_aio.CreateTasks:
		return C("RAlter", r.CreateTasks.RowsAffected)
	case t_aio.CompleteTasks:
		return C("RAlter", r.CompleteTasks.RowsAffected)
	case t_aio.UpdateTask:
		return C("RAlter", r.UpdateTask.RowsAffected)
	case t_aio.HeartbeatTasks:
		return C("RAlter", r.HeartbeatTasks.RowsAffected)
	case t_aio.CreatePromiseAndTask:
		return C("RAlter2", r.CreatePromiseAndTask.PromiseRowsAffected, r.CreatePromiseAndTask.TaskRowsAffected)
	case t_aio.ReadLock:
		return C("RLocks", r.ReadLock.RowsReturned, lockRecs(r.ReadLock.Records))
	case t_aio.AcquireLock:
		return C("RAlter", r.AcquireLock.RowsAffected)
	case t_aio.ReleaseLock:
		return C("RAlter", r.ReleaseLock.RowsAffected)
	case t_aio.HeartbeatLocks:
		return C("RAlter", r.HeartbeatLocks.RowsAffected)
	case t_aio.TimeoutLocks:
		return C("RAlter", r.TimeoutLocks.RowsAffected)
	}
	panic("unknown result kind")
}

func ResultsT(rs []*t_aio.Result) term {
	items := []term{}
	for _, r := range rs {
		items = append(items, ResultT(r))
	}
	return L(items...)
}

// ---- submissions ----

func SubT(s *t_aio.Submission) term {
	switch s.Kind {
	case t_aio.Store:
		return C("SStore", TxnT(s.Store.Transaction))
	case t_aio.Router:
		return C("SRouter", PromiseNoSort(s.Router.Promise))
	case t_aio.Sender:
		x := s.Sender
		return C("SSender", C("mkSend", TaskT(x.Task), OptPromise(x.Promise), S(x.ClaimHref), S(x.CompleteHref), S(x.HeartbeatHref)))
	}
	panic("unknown submission kind")
}

// ---- requests / responses ----

func cprT(r *t_api.CreatePromiseRequest) term {
	return C("mkCPR", S(r.Id), OptKey(r.IdempotencyKey), r.Strict, M(r.Param.Headers), B(r.Param.Data), r.Timeout, M(r.Tags))
}

func RequestT(r *t_api.Request) term {
	switch r.Kind {
	case t_api.ReadPromise:
		return C("QReadPromise", S(r.ReadPromise.Id))
	case t_api.SearchPromises:
		x := r.SearchPromises
		return C("QSearchPromises", S(x.Id), States(x.States), M(x.Tags), int64(x.Limit), OptI(x.SortId))
	case t_api.CreatePromise:
		return C("QCreatePromise", cprT(r.CreatePromise))
	case t_api.CreatePromiseAndTask:
		x := r.CreatePromiseAndTask
		return C("QCreatePromiseAndTask", cprT(x.Promise), S(x.Task.ProcessId), int64(x.Task.Ttl))
	case t_api.CompletePromise:
		x := r.CompletePromise
		return C("QCompletePromise", C("mkCMR", S(x.Id), OptKey(x.IdempotencyKey), x.Strict, int64(x.State), M(x.Value.Headers), B(x.Value.Data)))
	case t_api.CreateCallback:
		x := r.CreateCallback
		return C("QCreateCallback", S(x.PromiseId), S(x.RootPromiseId), x.Timeout, B(x.Recv))
	case t_api.CreateSubscription:
		x := r.CreateSubscription
		return C("QCreateSubscription", S(x.Id), S(x.PromiseId), x.Timeout, B(x.Recv))
	case t_api.ReadSchedule:
		return C("QReadSchedule", S(r.ReadSchedule.Id))
	case t_api.SearchSchedules:
		x := r.SearchSchedules
		return C("QSearchSchedules", S(x.Id), M(x.Tags), int64(x.Limit), OptI(x.SortId))
	case t_api.CreateSchedule:
		x := r.CreateSchedule
		return C("QCreateSchedule", C("mkCSR", S(x.Id), S(x.Description), S(x.Cron), M(x.Tags), S(x.PromiseId), x.PromiseTimeout,
			M(x.PromiseParam.Headers), B(x.PromiseParam.Data), M(x.PromiseTags), OptKey(x.IdempotencyKey)))
	case t_api.DeleteSchedule:
		return C("QDeleteSchedule", S(r.DeleteSchedule.Id))
	case t_api.AcquireLock:
		x := r.AcquireLock
		return C("QAcquireLock", S(x.ResourceId), S(x.ExecutionId), S(x.ProcessId), x.Ttl)
	case t_api.ReleaseLock:
		return C("QReleaseLock", S(r.ReleaseLock.ResourceId), S(r.ReleaseLock.ExecutionId))
	case t_api.HeartbeatLocks:
		return C("QHeartbeatLocks", S(r.HeartbeatLocks.ProcessId))
	case t_api.ClaimTask:
		x := r.ClaimTask
		return C("QClaimTask", S(x.Id), int64(x.Counter), S(x.ProcessId), int64(x.Ttl))
	case t_api.CompleteTask:
		return C("QCompleteTask", S(r.CompleteTask.Id), int64(r.CompleteTask.Counter))
	case t_api.HeartbeatTasks:
		return C("QHeartbeatTasks", S(r.HeartbeatTasks.ProcessId))
	}
	panic("unknown request kind")
}

func ResponseT(res *t_api.Response, err error) term {
	if err != nil {
		var e *t_api.Error
		if asErr(err, &e) {
			return C("RspError", int64(e.Code()))
		}
		return C("RspError", int64(-2))
	}
	switch res.Kind {
	case t_api.ReadPromise:
		return C("RspPromise", int64(res.ReadPromise.Status), OptPromise(res.ReadPromise.Promise))
	case t_api.CreatePromise:
		return C("RspPromise", int64(res.CreatePromise.Status), OptPromise(res.CreatePromise.Promise))
	case t_api.CompletePromise:
		return C("RspPromise", int64(res.CompletePromise.Status), OptPromise(res.CompletePromise.Promise))
	case t_api.CreatePromiseAndTask:
		x := res.CreatePromiseAndTask
		return C("RspPromiseTask", int64(x.Status), OptPromise(x.Promise), OptTask(x.Task))
	case t_api.SearchPromises:
		x := res.SearchPromises
		ps := []term{}
		for _, p := range x.Promises {
			ps = append(ps, PromiseNoSort(p))
		}
		var cur term
		if x.Cursor != nil && x.Cursor.Next != nil {
			cur = Some(I0(x.Cursor.Next.SortId))
		}
		return C("RspSearchP", int64(x.Status), L(ps...), cur)
	case t_api.CreateCallback:
		x := res.CreateCallback
		var cb term
		if x.Callback != nil {
			cb = Some(CallbackT(x.Callback))
		}
		return C("RspCallback", int64(x.Status), OptPromise(x.Promise), cb)
	case t_api.CreateSubscription:
		x := res.CreateSubscription
		var cb term
		if x.Callback != nil {
			cb = Some(CallbackT(x.Callback))
		}
		return C("RspCallback", int64(x.Status), OptPromise(x.Promise), cb)
	case t_api.ReadSchedule:
		return C("RspSchedule", int64(res.ReadSchedule.Status), OptSchedule(res.ReadSchedule.Schedule))
	case t_api.CreateSchedule:
		return C("RspSchedule", int64(res.CreateSchedule.Status), OptSchedule(res.CreateSchedule.Schedule))
	case t_api.SearchSchedules:
		x := res.SearchSchedules
		ss := []term{}
		for _, s := range x.Schedules {
			ss = append(ss, ScheduleT(s))
		}
		var cur term
		if x.Cursor != nil && x.Cursor.Next != nil {
			cur = Some(I0(x.Cursor.Next.SortId))
		}
		return C("RspSearchS", int64(x.Status), L(ss...), cur)
	case t_api.DeleteSchedule:
		return C("RspStatus", int64(res.DeleteSchedule.Status))
	case t_api.AcquireLock:
		var l term
		if res.AcquireLock.Lock != nil {
			l = Some(LockT(res.AcquireLock.Lock))
		}
		return C("RspLock", int64(res.AcquireLock.Status), l)
	case t_api.ReleaseLock:
		return C("RspStatus", int64(res.ReleaseLock.Status))
	case t_api.HeartbeatLocks:
		return C("RspCount", int64(res.HeartbeatLocks.Status), res.HeartbeatLocks.LocksAffected)
	case t_api.ClaimTask:
		x := res.ClaimTask
		return C("RspClaim", int64(x.Status), OptTask(x.Task), OptPromise(x.RootPromise), OptPromise(x.LeafPromise), S(x.RootPromiseHref), S(x.LeafPromiseHref))
	case t_api.CompleteTask:
		return C("RspTask", int64(res.CompleteTask.Status), OptTask(res.CompleteTask.Task))
	case t_api.HeartbeatTasks:
		return C("RspCount", int64(res.HeartbeatTasks.Status), res.HeartbeatTasks.TasksAffected)
	}
	panic("unknown response kind")
}
