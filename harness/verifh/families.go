//go:build verif

package main

import (
	"math"
	"encoding/json"
	"fmt"
	"time"

	"github.com/resonatehq/resonate/internal/kernel/system"
	"github.com/resonatehq/resonate/internal/kernel/t_api"
	"github.com/resonatehq/resonate/pkg/idempotency"
	"github.com/resonatehq/resonate/pkg/promise"
	"github.com/resonatehq/resonate/pkg/task"
)

func baseConfig(r *rng) *system.Config {
	return &system.Config{
		Url:                 "http://h",
		CoroutineMaxSize:    1000,
		SubmissionBatchSize: 1000,
		CompletionBatchSize: 1000,
		PromiseBatchSize:    1 + r.intn(3),
		ScheduleBatchSize:   1 + r.intn(3),
		TaskBatchSize:       1 + r.intn(3),
		TaskEnqueueDelay:    time.Duration(1+r.intn(3)) * time.Millisecond,
		SignalTimeout:       1 * time.Millisecond,
	}
}

func smallStep(w *world) int64 { return int64(pick(w.r, []int{0, 0, 1, 1, 1, 2, 3})) }

func key(r *rng) *idempotency.Key {
	// "k1" and "K1" are different keys that are equal under case folding; "" is a key (present and empty), not the
	// absence of one
	switch r.intn(9) {
	case 0, 1:
		return nil
	case 2, 3:
		k := idempotency.Key("k1")
		return &k
	case 4, 5:
		k := idempotency.Key("K1")
		return &k
	case 6:
		k := idempotency.Key("")
		return &k
	default:
		k := idempotency.Key("k2")
		return &k
	}
}

func smallMap(r *rng) map[string]string {
	switch r.intn(4) {
	case 0:
		return nil
	case 1:
		return map[string]string{}
	case 2:
		return map[string]string{"a": "1"}
	default:
		return map[string]string{"a": "2", "b": "x y"}
	}
}

func smallData(r *rng) []byte {
	switch r.intn(4) {
	case 0:
		return nil
	case 1:
		return []byte{}
	case 2:
		return []byte("d1")
	default:
		return []byte("{\"x\":\"y\"}")
	}
}

func recvOf(r *rng) json.RawMessage {
	switch r.intn(3) {
	case 0:
		return json.RawMessage(`"default"`)
	case 1:
		return json.RawMessage(`{"type":"poll","data":{"group":"g","id":"i"}}`)
	default:
		return json.RawMessage(`"http://h/x"`)
	}
}

var families = map[string]*family{}

func init() {
	// ---- locks (C09) ----
	families["locks"] = &family{
		name: "locks", bgs: []string{"TimeoutLocks"}, requests: 14, maxSteps: 40, fault: 0.08, timeStep: smallStep, fifo: true,
		config: baseConfig,
		gen: func(w *world) *t_api.Request {
			r := w.r
			res := pick(r, []string{"r1", "r2"})
			ex := pick(r, []string{"e1", "e2", "e3"})
			pr := pick(r, []string{"p1", "p2"})
			switch r.intn(10) {
			case 0, 1, 2, 3:
				ttl := pick(r, []int64{0, 1, 2, 3, 5})
				return &t_api.Request{Kind: t_api.AcquireLock, AcquireLock: &t_api.AcquireLockRequest{ResourceId: res, ExecutionId: ex, ProcessId: pr, Ttl: ttl}}
			case 4, 5, 6:
				return &t_api.Request{Kind: t_api.ReleaseLock, ReleaseLock: &t_api.ReleaseLockRequest{ResourceId: res, ExecutionId: ex}}
			default:
				return &t_api.Request{Kind: t_api.HeartbeatLocks, HeartbeatLocks: &t_api.HeartbeatLocksRequest{ProcessId: pr}}
			}
		},
	}

	// ---- lockwrap (C09, finding D13): acquires whose ttl makes time + ttl leave the 64-bit range, releases and the sweep.
	// No heartbeats: the heartbeat statement adds in SQL, where an overflowing sum is not an integer any more - what
	// happens then differs between Go, SQLite and Postgres and is outside the model.
	families["lockwrap"] = &family{
		name: "lockwrap", bgs: []string{"TimeoutLocks"}, requests: 8, maxSteps: 30, fault: 0.05, timeStep: smallStep, fifo: true,
		config: baseConfig,
		gen: func(w *world) *t_api.Request {
			r := w.r
			res := pick(r, []string{"r1", "r2"})
			ex := pick(r, []string{"e1", "e2"})
			if r.chance(0.7) {
				ttl := pick(r, []int64{math.MaxInt64, math.MaxInt64 - 5, 3, 1})
				return &t_api.Request{Kind: t_api.AcquireLock, AcquireLock: &t_api.AcquireLockRequest{ResourceId: res, ExecutionId: ex, ProcessId: "p1", Ttl: ttl}}
			}
			return &t_api.Request{Kind: t_api.ReleaseLock, ReleaseLock: &t_api.ReleaseLockRequest{ResourceId: res, ExecutionId: ex}}
		},
	}

	// ---- promises: create / complete / read / search / callback / subscription + sweep (C01 C03 C04 C05) ----
	promiseGen := func(w *world) *t_api.Request {
		r := w.r
		id := pick(r, []string{"a", "b", "a:b"})
		switch r.intn(20) {
		case 0, 1, 2, 3, 4:
			tags := smallMap(r)
			if r.chance(0.3) {
				if tags == nil {
					tags = map[string]string{}
				}
				tags["resonate:timeout"] = pick(r, []string{"true", "false"})
			}
			if r.chance(0.3) {
				if tags == nil {
					tags = map[string]string{}
				}
				tags["resonate:invoke"] = pick(r, []string{"default", "http://h/x", `{"type":"poll","data":{"group":"g"}}`})
			}
			return &t_api.Request{Kind: t_api.CreatePromise, CreatePromise: &t_api.CreatePromiseRequest{
				Id: id, IdempotencyKey: key(r), Strict: r.chance(0.4), Param: promise.Value{Headers: smallMap(r), Data: smallData(r)},
				Timeout: w.now + int64(r.intn(7)) - 1, Tags: tags}}
		case 5, 6, 7, 8, 9:
			return &t_api.Request{Kind: t_api.CompletePromise, CompletePromise: &t_api.CompletePromiseRequest{
				Id: id, IdempotencyKey: key(r), Strict: r.chance(0.4), State: pick(r, []promise.State{promise.Resolved, promise.Rejected, promise.Canceled}),
				Value: promise.Value{Headers: smallMap(r), Data: smallData(r)}}}
		case 10, 11, 12:
			return &t_api.Request{Kind: t_api.ReadPromise, ReadPromise: &t_api.ReadPromiseRequest{Id: id}}
		case 13, 14:
			states := pick(r, [][]promise.State{{promise.Pending}, {promise.Resolved}, {promise.Rejected, promise.Canceled, promise.Timedout}, {promise.Pending, promise.Resolved, promise.Rejected, promise.Canceled, promise.Timedout}})
			return &t_api.Request{Kind: t_api.SearchPromises, SearchPromises: &t_api.SearchPromisesRequest{
				Id: pick(r, []string{"*", "a*", "*b"}), States: states, Tags: pick(r, []map[string]string{nil, {}, {"a": "1"}}), Limit: 1 + r.intn(3)}}
		case 15, 16, 17:
			root := pick(r, []string{"a", "b", "a:b", "c"})
			return &t_api.Request{Kind: t_api.CreateCallback, CreateCallback: &t_api.CreateCallbackRequest{
				PromiseId: id, RootPromiseId: root, Timeout: w.now + int64(r.intn(9)), Recv: recvOf(r)}}
		default:
			return &t_api.Request{Kind: t_api.CreateSubscription, CreateSubscription: &t_api.CreateSubscriptionRequest{
				Id: pick(r, []string{"s1", "s2", "b:s1"}), PromiseId: id, Timeout: w.now + int64(r.intn(9)), Recv: recvOf(r)}}
		}
	}
	families["promises"] = &family{
		name: "promises", bgs: []string{"TimeoutPromises"}, requests: 16, maxSteps: 45, fault: 0.08, timeStep: smallStep, fifo: true,
		config: baseConfig, gen: promiseGen,
	}
	families["promises-crash"] = &family{
		name: "promises-crash", bgs: []string{"TimeoutPromises"}, requests: 16, maxSteps: 45, fault: 0.05, crash: 0.08, timeStep: smallStep, fifo: true,
		config: baseConfig, gen: promiseGen,
	}

	// ---- promise-race: conflicting writers on one id inside one tick (both read before either writes) ----
	families["promise-race"] = &family{
		name: "promise-race", bgs: []string{"TimeoutPromises"}, requests: 14, maxSteps: 40, fault: 0.04, timeStep: smallStep, fifo: true,
		config: baseConfig,
		gen: func(w *world) *t_api.Request {
			r := w.r
			id, _ := w.mem["rid"].(string)
			left, _ := w.mem["rleft"].(int)
			if left == 0 {
				id = pick(r, []string{"a", "b"})
				left = 2 + r.intn(2)
				w.mem["rkind"] = r.intn(3)
			}
			w.mem["rid"] = id
			w.mem["rleft"] = left - 1
			kind := w.mem["rkind"].(int)
			n := w.reqNo
			switch {
			case kind == 0 || w.snap == nil || len(w.snap.promises) == 0:
				// racing creates with different parameters / keys / tags
				return &t_api.Request{Kind: t_api.CreatePromise, CreatePromise: &t_api.CreatePromiseRequest{
					Id: id, IdempotencyKey: key(r), Param: promise.Value{Headers: map[string]string{"n": fmt.Sprint(n)}, Data: []byte(fmt.Sprintf("param%d", n))},
					Timeout: w.now + int64(pick(r, []int{2, 3, 4, 20, 22})), Tags: map[string]string{"t": fmt.Sprint(n)}}}
			case kind == 1:
				// racing completions with different states and values
				return &t_api.Request{Kind: t_api.CompletePromise, CompletePromise: &t_api.CompletePromiseRequest{
					Id: id, IdempotencyKey: key(r), Strict: r.chance(0.3), State: pick(r, []promise.State{promise.Resolved, promise.Rejected, promise.Canceled}),
					Value: promise.Value{Headers: map[string]string{"n": fmt.Sprint(n)}, Data: []byte(fmt.Sprintf("value%d", n))}}}
			default:
				switch r.intn(5) {
				case 4:
					// a search racing the writers and the deadline (its lazily timed-out view must agree with the rows)
					return &t_api.Request{Kind: t_api.SearchPromises, SearchPromises: &t_api.SearchPromisesRequest{
						Id: "*", States: []promise.State{promise.Pending, promise.Resolved, promise.Rejected, promise.Canceled, promise.Timedout}, Limit: 5}}
				case 0:
					return &t_api.Request{Kind: t_api.ReadPromise, ReadPromise: &t_api.ReadPromiseRequest{Id: id}}
				case 1:
					return &t_api.Request{Kind: t_api.CreateCallback, CreateCallback: &t_api.CreateCallbackRequest{
						PromiseId: id, RootPromiseId: pick(r, []string{"a", "b", "c"}), Timeout: w.now + 30, Recv: recvOf(r)}}
				case 2:
					return &t_api.Request{Kind: t_api.CreateSubscription, CreateSubscription: &t_api.CreateSubscriptionRequest{
						Id: pick(r, []string{"s1", "s2"}), PromiseId: id, Timeout: w.now + 30, Recv: recvOf(r)}}
				default:
					return &t_api.Request{Kind: t_api.CompletePromise, CompletePromise: &t_api.CompletePromiseRequest{
						Id: id, IdempotencyKey: key(r), State: promise.Resolved, Value: promise.Value{Data: []byte(fmt.Sprintf("value%d", n))}}}
				}
			}
		},
	}

	// ---- data: hostile client data through every request kind, read back by reads, searches, claims, messages (C20) ----
	families["data"] = &family{
		name: "data", bgs: []string{"TimeoutPromises", "EnqueueTasks", "TimeoutTasks"}, requests: 22, maxSteps: 60, fault: 0.02, timeStep: smallStep, fifo: true,
		senderOK: 0.7, config: baseConfig,
		gen: func(w *world) *t_api.Request {
			r := w.r
			long := ""
			for i := 0; i < 40; i++ {
				long += "lng/" + fmt.Sprint(i)
			}
			ids := []string{"a/b", "a:b", "a b", " a", "a ", "A", "a", "\u00e4", "\u65e5\u672c", "<x>&\"'", "a%2Fb", "__invoke:a", "a.1000", "x\ty", "{{.id}}", "a_c", "a%c", long}
			strs := []string{"", " ", "v", "V", "a/b:c", "<b>&amp;\"q\"'", "\u00e9\u00e8", "{\"j\":1}", "null", "line\nbreak", "tab\t", "%s%d", long}
			hmap := func() map[string]string {
				switch r.intn(4) {
				case 0:
					return nil
				case 1:
					return map[string]string{}
				default:
					m := map[string]string{}
					for i := 0; i < 1+r.intn(3); i++ {
						m[pick(r, strs)] = pick(r, strs)
					}
					return m
				}
			}
			data := func() []byte {
				switch r.intn(5) {
				case 0:
					return nil
				case 1:
					return []byte{}
				case 2:
					return []byte{0, 1, 2, 0xff, 0xfe, '"', '\\', 0x80}
				default:
					return []byte(pick(r, strs))
				}
			}
			id := pick(r, ids)
			var tids []string
			tcount := map[string]int{}
			if w.snap != nil {
				for _, t := range w.snap.tasks {
					tids = append(tids, t.rec.Id)
					tcount[t.rec.Id] = t.rec.Counter
				}
			}
			tids = append(tids, "__invoke:a/b")
			switch x := r.intn(20); {
			case x < 7:
				tags := hmap()
				if r.chance(0.4) {
					if tags == nil {
						tags = map[string]string{}
					}
					tags["resonate:invoke"] = pick(r, []string{"default", "name with spaces", "poll://g/i d", `{"type":"poll","data":{"group":"g r","id":"i/d"}}`, "<recv>&"})
				}
				to := pick(r, []int64{w.now + 40, w.now + 2, 9223372036854775807, 1 << 40, w.now})
				return &t_api.Request{Kind: t_api.CreatePromise, CreatePromise: &t_api.CreatePromiseRequest{
					Id: id, IdempotencyKey: key(r), Param: promise.Value{Headers: hmap(), Data: data()}, Timeout: to, Tags: tags}}
			case x < 10:
				return &t_api.Request{Kind: t_api.CompletePromise, CompletePromise: &t_api.CompletePromiseRequest{
					Id: id, IdempotencyKey: key(r), State: pick(r, []promise.State{promise.Resolved, promise.Rejected, promise.Canceled}),
					Value: promise.Value{Headers: hmap(), Data: data()}}}
			case x < 13:
				return &t_api.Request{Kind: t_api.ReadPromise, ReadPromise: &t_api.ReadPromiseRequest{Id: id}}
			case x < 14:
				return &t_api.Request{Kind: t_api.SearchPromises, SearchPromises: &t_api.SearchPromisesRequest{
					Id: "*", States: []promise.State{promise.Pending, promise.Resolved, promise.Rejected, promise.Canceled, promise.Timedout}, Limit: 2 + r.intn(4)}}
			case x < 16:
				rc, _ := json.Marshal(pick(r, []string{"default", "name with spaces", "<recv>&\"", "\u00e4"}))
				return &t_api.Request{Kind: t_api.CreateCallback, CreateCallback: &t_api.CreateCallbackRequest{
					PromiseId: id, RootPromiseId: pick(r, ids), Timeout: pick(r, []int64{w.now + 30, 9223372036854775807}), Recv: rc}}
			case x < 17:
				rc, _ := json.Marshal(pick(r, []string{"default", "poll://g/a b"}))
				return &t_api.Request{Kind: t_api.CreateSubscription, CreateSubscription: &t_api.CreateSubscriptionRequest{
					Id: pick(r, ids), PromiseId: id, Timeout: w.now + 30, Recv: rc}}
			case x < 19:
				tid := pick(r, tids)
				c := tcount[tid]
				if c == 0 {
					c = 1
				}
				return &t_api.Request{Kind: t_api.ClaimTask, ClaimTask: &t_api.ClaimTaskRequest{Id: tid, Counter: c, ProcessId: pick(r, strs[1:]), Ttl: pick(r, []int{1, 50})}}
			default:
				tid := pick(r, tids)
				c := tcount[tid]
				if c == 0 {
					c = 1
				}
				return &t_api.Request{Kind: t_api.CompleteTask, CompleteTask: &t_api.CompleteTaskRequest{Id: tid, Counter: c}}
			}
		},
	}

	// ---- search: a population of promises, searches with small pages, clients that follow the cursors (C14) ----
	families["search"] = &family{
		name: "search", bgs: []string{"TimeoutPromises"}, requests: 30, maxSteps: 75, fault: 0.03, timeStep: smallStep, fifo: true,
		config: baseConfig,
		gen: func(w *world) *t_api.Request {
			r := w.r
			ids := []string{"a1", "a2", "a3", "ab", "b1", "b2", "B1", "c", "a_c"}
			switch x := r.intn(20); {
			case x < 8:
				tags := pick(r, []map[string]string{nil, {"k": "v"}, {"k": "w"}, {"k": "v", "x.y": "1"}})
				return &t_api.Request{Kind: t_api.CreatePromise, CreatePromise: &t_api.CreatePromiseRequest{
					Id: pick(r, ids), Timeout: w.now + int64(pick(r, []int{1, 2, 3, 60, 80})), Tags: tags}}
			case x < 11:
				return &t_api.Request{Kind: t_api.CompletePromise, CompletePromise: &t_api.CompletePromiseRequest{
					Id: pick(r, ids), State: pick(r, []promise.State{promise.Resolved, promise.Rejected, promise.Canceled})}}
			default:
				if nx, ok := w.mem["nextSearch"].(*t_api.SearchPromisesRequest); ok && nx != nil && r.chance(0.85) {
					w.mem["nextSearch"] = nil
					cp := *nx
					return &t_api.Request{Kind: t_api.SearchPromises, SearchPromises: &cp}
				}
				states := pick(r, [][]promise.State{{promise.Pending}, {promise.Pending, promise.Resolved, promise.Rejected, promise.Canceled, promise.Timedout},
					{promise.Resolved, promise.Rejected, promise.Canceled, promise.Timedout}, {promise.Timedout}})
				return &t_api.Request{Kind: t_api.SearchPromises, SearchPromises: &t_api.SearchPromisesRequest{
					Id: pick(r, []string{"*", "a*", "*1", "*b*", "a_c"}), States: states, Tags: pick(r, []map[string]string{nil, {}, {"k": "v"}}), Limit: 1 + r.intn(3)}}
			}
		},
	}

	// ---- tasks: routed promises, callbacks, claims, completions, heartbeats, dispatch, sweeps (C07 C08) ----
	taskGen := func(w *world) *t_api.Request {
		r := w.r
		id := pick(r, []string{"a", "b"})
		// task ids that may exist
		var tids []string
		tcount := map[string]int{}
		if w.snap != nil {
			for _, t := range w.snap.tasks {
				tids = append(tids, t.rec.Id)
				tcount[t.rec.Id] = t.rec.Counter
			}
		}
		tids = append(tids, "__invoke:a", "nope")
		switch r.intn(20) {
		case 0, 1, 2:
			tags := map[string]string{}
			if r.chance(0.75) {
				tags["resonate:invoke"] = pick(r, []string{"default", "poll://g/i", `{"type":"poll","data":{"group":"g"}}`})
			}
			return &t_api.Request{Kind: t_api.CreatePromise, CreatePromise: &t_api.CreatePromiseRequest{
				Id: id, IdempotencyKey: key(r), Param: promise.Value{Data: smallData(r)}, Timeout: w.now + int64(r.intn(12)), Tags: tags}}
		case 3:
			tags := map[string]string{}
			if r.chance(0.7) {
				tags["resonate:invoke"] = "default"
			}
			to := w.now + int64(r.intn(12))
			return &t_api.Request{Kind: t_api.CreatePromiseAndTask, CreatePromiseAndTask: &t_api.CreatePromiseAndTaskRequest{
				Promise: &t_api.CreatePromiseRequest{Id: id, IdempotencyKey: key(r), Timeout: to, Tags: tags},
				Task:    &t_api.CreateTaskRequest{PromiseId: id, ProcessId: pick(r, []string{"p1", "p2"}), Ttl: r.intn(4), Timeout: to}}}
		case 4, 5:
			return &t_api.Request{Kind: t_api.CompletePromise, CompletePromise: &t_api.CompletePromiseRequest{
				Id: id, IdempotencyKey: key(r), State: promise.Resolved, Value: promise.Value{Data: smallData(r)}}}
		case 6, 7:
			root := pick(r, []string{"a", "b", "c"})
			return &t_api.Request{Kind: t_api.CreateCallback, CreateCallback: &t_api.CreateCallbackRequest{
				PromiseId: id, RootPromiseId: root, Timeout: w.now + int64(r.intn(12)), Recv: recvOf(r)}}
		case 8:
			return &t_api.Request{Kind: t_api.CreateSubscription, CreateSubscription: &t_api.CreateSubscriptionRequest{
				Id: pick(r, []string{"s1", "s2"}), PromiseId: id, Timeout: w.now + int64(r.intn(12)), Recv: recvOf(r)}}
		case 9, 10, 11, 12, 13:
			tid := pick(r, tids)
			c := tcount[tid]
			if c == 0 {
				c = 1
			}
			c += pick(r, []int{0, 0, 0, 0, -1, 1})
			return &t_api.Request{Kind: t_api.ClaimTask, ClaimTask: &t_api.ClaimTaskRequest{Id: tid, Counter: c, ProcessId: pick(r, []string{"p1", "p2"}), Ttl: pick(r, []int{0, 1, 2, 3, 40, 60})}}
		case 14, 15, 16:
			tid := pick(r, tids)
			c := tcount[tid]
			if c == 0 {
				c = 1
			}
			c += pick(r, []int{0, 0, 0, 0, -1, 1})
			return &t_api.Request{Kind: t_api.CompleteTask, CompleteTask: &t_api.CompleteTaskRequest{Id: tid, Counter: c}}
		default:
			return &t_api.Request{Kind: t_api.HeartbeatTasks, HeartbeatTasks: &t_api.HeartbeatTasksRequest{ProcessId: pick(r, []string{"p1", "p2"})}}
		}
	}
	// ---- dispatch (C08 / C19): many roots, dispatch cycles that hand off several tasks at once, every hand-off outcome ----
	families["dispatch"] = &family{
		name: "dispatch", bgs: []string{"EnqueueTasks", "TimeoutTasks", "TimeoutPromises"}, requests: 18, maxSteps: 50, fault: 0.04,
		timeStep: smallStep, fifo: true, senderOK: 0.5,
		config: func(r *rng) *system.Config {
			c := baseConfig(r)
			c.TaskBatchSize = 2 + r.intn(3)
			return c
		},
		gen: func(w *world) *t_api.Request {
			r := w.r
			id := pick(r, []string{"a", "b", "c", "d", "e", "f"})
			switch x := r.intn(20); {
			case x < 9:
				return &t_api.Request{Kind: t_api.CreatePromise, CreatePromise: &t_api.CreatePromiseRequest{
					Id: id, Param: promise.Value{Data: smallData(r)}, Timeout: w.now + 40 + int64(r.intn(40)),
					Tags: map[string]string{"resonate:invoke": pick(r, []string{"default", "poll://g/i", "http://h/x"})}}}
			case x < 12:
				root := pick(r, []string{"a", "b", "c", "d", "e", "f"})
				return &t_api.Request{Kind: t_api.CreateCallback, CreateCallback: &t_api.CreateCallbackRequest{
					PromiseId: id, RootPromiseId: root, Timeout: w.now + 40, Recv: recvOf(r)}}
			case x < 14:
				return &t_api.Request{Kind: t_api.CreateSubscription, CreateSubscription: &t_api.CreateSubscriptionRequest{
					Id: pick(r, []string{"s1", "s2"}), PromiseId: id, Timeout: w.now + 40, Recv: recvOf(r)}}
			case x < 17:
				return &t_api.Request{Kind: t_api.CompletePromise, CompletePromise: &t_api.CompletePromiseRequest{
					Id: id, State: promise.Resolved, Value: promise.Value{Data: smallData(r)}}}
			default:
				return taskGen(w)
			}
		},
	}
	// ---- collide (C13 / C05): derived callback / task ids that coincide across promises (ids containing ':') ----
	families["collide"] = &family{
		name: "collide", bgs: []string{"TimeoutPromises"}, requests: 14, maxSteps: 40, fault: 0.02, timeStep: smallStep, fifo: true,
		config: baseConfig,
		gen: func(w *world) *t_api.Request {
			r := w.r
			id := pick(r, []string{"a", "a:b"})
			switch x := r.intn(10); {
			case x < 3:
				return &t_api.Request{Kind: t_api.CreatePromise, CreatePromise: &t_api.CreatePromiseRequest{Id: id, Timeout: w.now + 30 + int64(r.intn(20))}}
			case x < 6:
				// __notify:a:b:s1 is the id of (promise a:b, subscription s1) and of (promise a, subscription b:s1)
				sid := "s1"
				if id == "a" {
					sid = "b:s1"
				}
				return &t_api.Request{Kind: t_api.CreateSubscription, CreateSubscription: &t_api.CreateSubscriptionRequest{
					Id: sid, PromiseId: id, Timeout: w.now + 40, Recv: recvOf(r)}}
			case x < 9:
				return &t_api.Request{Kind: t_api.CompletePromise, CompletePromise: &t_api.CompletePromiseRequest{
					Id: id, State: promise.Resolved, Value: promise.Value{Data: smallData(r)}}}
			default:
				return &t_api.Request{Kind: t_api.ReadPromise, ReadPromise: &t_api.ReadPromiseRequest{Id: id}}
			}
		},
	}
	families["tasks-crash"] = &family{
		name: "tasks-crash", bgs: []string{"TimeoutPromises", "EnqueueTasks", "TimeoutTasks"}, requests: 18, maxSteps: 55, fault: 0.04, crash: 0.07,
		timeStep: smallStep, fifo: true, senderOK: 0.6, config: baseConfig, gen: taskGen,
	}
	// ---- converge (C11): a scenario of every kind of state, then a long quiet phase ----
	families["converge"] = &family{
		name: "converge", bgs: []string{"TimeoutPromises", "EnqueueTasks", "TimeoutTasks", "TimeoutLocks", "SchedulePromises"}, requests: 16, maxSteps: 40,
		// mostly small steps, now and then a jump over one or two schedule occurrences (so that schedules are due
		// when the quiet phase begins and have to be caught up)
		fault: 0.08, crash: 0.03, fifo: true, senderOK: 0.5, drainTicks: 70,
		timeStep: func(w *world) int64 {
			if w.r.chance(0.12) {
				return int64(pick(w.r, []int{700, 1000, 1400, 2600}))
			}
			return smallStep(w)
		},
		config: func(r *rng) *system.Config {
			c := baseConfig(r)
			if r.chance(0.5) {
				c.PromiseBatchSize, c.ScheduleBatchSize, c.TaskBatchSize = 1, 1, 1
			}
			return c
		},
		gen: func(w *world) *t_api.Request {
			r := w.r
			switch x := r.intn(10); {
			case x < 6:
				return taskGen(w)
			case x < 8:
				res := pick(r, []string{"r1", "r2"})
				return &t_api.Request{Kind: t_api.AcquireLock, AcquireLock: &t_api.AcquireLockRequest{ResourceId: res, ExecutionId: pick(r, []string{"e1", "e2"}), ProcessId: "p1", Ttl: pick(r, []int64{1, 3, 8})}}
			default:
				return &t_api.Request{Kind: t_api.CreateSchedule, CreateSchedule: &t_api.CreateScheduleRequest{
					Id: pick(r, []string{"s1", "s2"}), Cron: pick(r, []string{"* * * * * *", "@every 3s"}), PromiseId: "{{.id}}.{{.timestamp}}", PromiseTimeout: 5,
					// some schedules fire routed promises (an invocation task is born with each occurrence)
					PromiseTags: pick(r, []map[string]string{nil, nil, {"resonate:invoke": "poll://g/i"}})}}
			}
		},
	}
	families["tasks"] = &family{
		name: "tasks", bgs: []string{"TimeoutPromises", "EnqueueTasks", "TimeoutTasks"}, requests: 18, maxSteps: 50, fault: 0.06,
		timeStep: smallStep, fifo: true, senderOK: 0.6, config: baseConfig, gen: taskGen,
	}

	// ---- schedules (C10) ----
	families["schedules"] = &family{
		name: "schedules", bgs: []string{"SchedulePromises", "TimeoutPromises"}, requests: 8, maxSteps: 40, fault: 0.06, crash: 0.03,
		timeStep: func(w *world) int64 { return int64(pick(w.r, []int{0, 1, 500, 999, 1000, 1001, 2500, 7000})) }, fifo: true,
		config: baseConfig,
		gen: func(w *world) *t_api.Request {
			r := w.r
			id := pick(r, []string{"s1", "s2"})
			switch r.intn(10) {
			case 0, 1, 2, 3:
				ptags := smallMap(r)
				if r.chance(0.25) {
					if ptags == nil {
						ptags = map[string]string{}
					}
					ptags["resonate:invoke"] = pick(r, []string{"default", "poll://g/i"})
				}
				if r.chance(0.2) {
					id = pick(r, []string{"a<b&c", "s/1", "s 1", "\u00e4"})
				}
				return &t_api.Request{Kind: t_api.CreateSchedule, CreateSchedule: &t_api.CreateScheduleRequest{
					Id: id, Description: pick(r, []string{"", "d"}), Cron: pick(r, []string{"* * * * * *", "*/2 * * * * *", "@every 3s"}),
					Tags: smallMap(r), PromiseId: pick(r, []string{"{{.id}}.{{.timestamp}}", "{{.id}}.{{.timestamp}}", "x.{{.timestamp}}", "fixed", "s.{{.timestamp"}),
					PromiseTimeout: int64(pick(r, []int{0, 1000, 5000})), PromiseParam: promise.Value{Headers: smallMap(r), Data: smallData(r)},
					PromiseTags: ptags, IdempotencyKey: key(r)}}
			case 4, 5:
				return &t_api.Request{Kind: t_api.DeleteSchedule, DeleteSchedule: &t_api.DeleteScheduleRequest{Id: id}}
			case 6:
				return &t_api.Request{Kind: t_api.ReadSchedule, ReadSchedule: &t_api.ReadScheduleRequest{Id: id}}
			case 7:
				return &t_api.Request{Kind: t_api.SearchSchedules, SearchSchedules: &t_api.SearchSchedulesRequest{Id: pick(r, []string{"*", "s1*", "s_", "s_*", "*_", "S1", "%1"}), Tags: pick(r, []map[string]string{nil, {"a": "1"}}), Limit: 1 + r.intn(2)}}
			default:
				// a user creating a promise id that a firing may produce
				ts := (w.now/1000 + int64(r.intn(3))) * 1000
				return &t_api.Request{Kind: t_api.CreatePromise, CreatePromise: &t_api.CreatePromiseRequest{
					Id: pick(r, []string{fmt.Sprintf("s1.%d", ts), fmt.Sprintf("x.%d", ts), "fixed"}), Timeout: w.now + 3000}}
			}
		},
	}
	_ = task.Init
}
